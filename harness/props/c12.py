"""C12 -- mean stress transformation follows the iso-damage lines of the Haigh diagram.

Model: coq/theories/Strength/MeanStress.v (hand-written literal mirror of _SegmentTransformer / HaighDiagram.transform /
_rebin_results over Q + extended rationals).  Tie: correspondence (vm_compute) on generated cycles x diagrams x targets through
all three interfaces.  On every run the property's own relations are evaluated on the implementation (closed form by an
independent exact oracle, path independence, idempotence, fixed point, monotonicity, continuity, interface agreement, cycle
conservation) = failing-input search."""
import math
from fractions import Fraction as F

import numpy as np

import common
import ms
from common import qlit

MANIFEST = dict(
    text='Theorems (props/C12.v, 21, all closed under the global context) about a hand-written Gallina model of HaighDiagram.transform / '
         '_SegmentTransformer (segment ordering by distance from the target in fake-mean-stress space with stable ties, closed test interval, '
         'the +-inf flip, transformed_amplitude incl. R_goal = -inf and 1.0 -> -inf), the FKM-Goodman and five-segment diagram constructors and '
         '_rebin_results, over Q with an extended rational type for R. segment_walk_invariant: a * H(R) is invariant under every step of the '
         'segment walk for any diagram and any schedule once H is a multiple of the iso-damage weight on every segment. FKM-Goodman (every '
         '0 <= M2, 0 <= M < 1, every cycle a > 0 / any mean, every target incl. R = -inf and R > 1): the algorithm equals the independently '
         'written closed form (fkm_goodman_closed_form), hence path independence, idempotence, fixed point, strict monotonicity in the amplitude, '
         'Lipschitz continuity (constant 1) of the equivalent amplitude over all mean stresses (i.e. across the segment borders). Five-segment '
         'diagram (0 < R12 < R23 < 1, slopes in [0, 1)): closed form a * H_five(R) / H_five(R_goal), path independence, idempotence, fixed point for '
         'every cycle and target EXCEPT the class found by this check (code as it is: target R = -inf and a cycle at R > 1 is not transformed; '
         'five_segment_neg_inf_refuted gives the witness); the same theorems hold without exception for the repaired code (flag fx = true = '
         'fixes/C12-five-segment-target-neg-inf.patch). matrix_conserves_cycles: re-binning puts every transformed range into exactly one result '
         'interval. Listing order of the segments (diagrams built by HaighDiagram.from_dict): segment_walk_invariant_any_listing (the invariant holds for every '
         'listing, with and without the repair), natural_listing_refuted (code as it is: the FKM-Goodman diagram listed in the natural order of R leaves a cycle '
         'at R = 2 untransformed for the goal R = 1/2 and is path dependent; open finding segment-listing-order), listing_repair_keeps_fkm_goodman / '
         '_five_segment (fixes/C12-segment-listing-order.patch, model flag fo = true, does not change the constructors\' diagrams, so every theorem above carries over). '
         'Index layout of the inputs: matrix_result_independent_of_row_layout (the re-binned result, class by class, depends only on the multiset of the non-empty '
         'rows (transformed range, cycles) of the matrix: row order and sparsity -- mat[mat > 0] -- do not matter when ranges and cycles are paired by label), '
         'frame_index_order_irrelevant and frame_row_is_single_diagram_transformation (one parameter set per element: every row is transformed with the diagram its '
         'element id looks up in the frame of parameter sets, whatever the order in which the frame lists its distinct ids). '
         'The model is tied to the code by a vm_compute correspondence check of amplitude and mean through the plain functions, the '
         'DataFrame accessor (several index layouts, one diagram per element with the frame of parameter sets indexed in ascending / descending / arbitrary id order) '
         'and the histogram accessor (full, permuted and sparse matrices), and of the re-binned counts.',
    note=common.TB_NOTE + 'all C12 theorems are closed under the global context (no axioms). Model is hand-written: the correspondence harness '
         '(generators, Coq literals, exact Fraction oracle) is trusted; float rounding is outside the theorems (comparison tolerance 1e-9 '
         'relative to the magnitude of the cycle); pandas/numpy internals (alignment, stable sort of <= 5 distances, IntervalIndex, linspace/ceil in '
         'the re-binning: the interval edges are taken from the implementation and checked against the hypotheses of matrix_conserves_cycles) are '
         'covered by the correspondence only; R_goal = 1 and R_goal = +inf are rejected by the model (the code raises / returns garbage there); '
         'five-segment slopes outside [0, 1) (the test-suite uses M3 = 1, M4 = -2) are covered by correspondence and the exact oracle, not by the theorems; '
         'monotonicity/continuity are proved for FKM-Goodman only (five-segment: oracle relations on the implementation); that the walk ARRIVES at the goal is '
         'proved for the constructors\' listings only -- other listings accepted by the gap check (rotations of the natural order, built by from_dict) are '
         'covered by correspondence and the oracle relations; bin-by-bin agreement of the matrix interface with the plain function for every row / level order of '
         'the matrix and cycles with an IEEE negative zero as upper value are relations on the implementation only (the Q model has no signed zero; the model\'s '
         're-binning is fed with the pairing the code uses).',
    technique='Coq proof (invariant + case analysis, lra/nra/field over Q) over hand-written Gallina model + vm_compute correspondence',
    design='6/C12')

W_CLOSED = 'transformed amplitude differs from the iso-damage closed form'
W_PATH = 'two-step transformation differs from the direct transformation'
W_IDEM = 'transforming twice to the same R changes the amplitude'
W_FIX = 'a cycle already at the target R is changed'
W_MONO = 'transformed amplitude is not non-decreasing in the amplitude'
W_CONT = 'transformed amplitude jumps across a segment border'
W_IFACE = 'interfaces disagree'
W_CONS = 'matrix transformation does not conserve the number of cycles'
W_RGOAL = 'matrix transformation result is not at the target R'
W_BOOK = 'matrix transformation books cycles into other result classes than the plain function (same total)'

KF_WITNESS = {'diagram': {'kind': 'five', 'M0': 0.5, 'M1': 0.25, 'M2': 0.125, 'M3': 0.0625, 'M4': 0.25, 'R12': 0.25, 'R23': 0.5},
              'R_goal': -ms.INF, 'cycle': [-4.0, -2.0]}
# FKM-like diagram listed in the natural order of R through HaighDiagram.from_dict; cycle at R = 2 to R = 1/2
KF_LISTING = {'diagram': {'kind': 'fkm', 'M': 0.5, 'M2': 0.25, 'listing': 0}, 'R_goal': 0.5, 'cycle': [-4.0, -2.0]}
# 2 x 2 range/mean matrix with the rows listed in another order than the product order
KF_ROWS = {'diagram': {'kind': 'fkm', 'M': 0.5, 'M2': 0.25}, 'R_goal': -1.0, 'hist_kind': 'range_mean',
           'x_breaks': [0.0, 1.0, 2.0], 'y_breaks': [-1.0, 0.0, 1.0], 'counts': [[1, 2], [3, 4]], 'extra': None,
           'order': {'levels': None, 'perm': [0, 1, 3, 2]}}
KF_NEGZERO = {'diagram': {'kind': 'fkm', 'M': 0.5, 'M2': 0.25}, 'R_goal': -1.0, 'cycle': [-2.0, -0.0]}
TOL = F(1, 10 ** 9)
INF = ms.INF


def scale_of(a, m):
    return max(1.0, float(a) + abs(float(m)))


def close(x, y, sc, tol=1e-9):
    return abs(x - y) <= tol * max(1.0, sc, abs(y))


def cyc_R_float(ft):
    a, m = ms.am_of(ft)
    R = ms.cycle_R(a, m)
    return R if R == -INF else float(R)


def in_known_class(v):
    """five-segment diagram with M4 != 0, target R = -inf, cycle (or intermediate target) in R > 1: the segment (1, inf)
    is neither left of, right of, nor containing the goal, so these cycles are not transformed at all."""
    d = v.get('diagram', {})
    if d.get('kind') != 'five' or d.get('M4') == 0 or v.get('R_goal') != -INF:
        return False
    f, t = v['cycle']
    if max(f, t) < 0:
        return True
    return v.get('R_1') is not None and v['R_1'] != -INF and v['R_1'] > 1


def is_neg_zero(x):
    return x == 0 and math.copysign(1.0, x) < 0


def in_listing_class(v):
    """diagram built by from_dict in another listing order than the constructors' ((1, inf) first, (-inf, 0) second, then
    ascending R) and a transformation leg from beyond R = 1 to a target inside (0, 1).  (1, inf) and (-inf, 0) tie in the
    distance from every goal; the order in which ties are walked is whatever Series.sort_values() (default kind, which is
    NOT stable for 4 or more float64 values with this numpy) makes of the listing.  If (-inf, 0) comes first the cycle is
    parked at R = -inf after (-inf, 0) has been walked and is not picked up again.
    Legs: cycle -> R_goal, cycle -> R_1, R_1 -> R_goal."""
    d = v.get('diagram', {})
    if not ms.listed_otherwise_than_constructor(d) or 'cycle' not in v:
        return False

    def inside(g):
        return g is not None and g != -INF and 0 < g < 1
    f, t = v['cycle']
    R1 = v.get('R_1')
    if max(f, t) < 0 and (inside(v.get('R_goal')) or inside(R1)):
        return True
    return R1 is not None and R1 != -INF and R1 > 1 and inside(v.get('R_goal'))


def in_rows_class(v):
    """matrix whose rows are not listed in the lexicographic (product) order of its own index levels -- rows permuted, or
    levels reordered without re-sorting the rows"""
    if not v.get('order'):
        return False
    s = ms.hist_series(v['hist_kind'], v['x_breaks'], v['y_breaks'], v['counts'], v.get('extra'), v['order'])
    return not s.index.is_monotonic_increasing


def in_negzero_class(v):
    """collective cycle whose upper value is IEEE -0.0 (R = lower / -0.0 = +inf instead of -inf)"""
    c = v.get('cycle')
    return bool(c) and min(c) < 0 and is_neg_zero(max(c)) and any(is_neg_zero(x) for x in c)


def register_classes(res):
    res.classes['five-segment-M4-target-neg-inf'] = in_known_class
    res.classes['from-dict-listing-other-than-constructor'] = in_listing_class
    res.classes['matrix-rows-not-in-product-order'] = in_rows_class
    res.classes['collective-upper-value-negative-zero'] = in_negzero_class


# --------------------------------------------------------------------------- relations on the implementation (one cycle)

def check_closed(d, ft, Rg):
    """oracle vs plain function; returns (ok, observed, expected) or None if outside the property's domain"""
    a, m = ms.am_of(ft)
    o = ms.oracle(d, a, m, Rg)
    if o is None or o <= 0:
        return None
    got = ms.impl_plain(d, [float(a)], [float(m)], Rg)[0]
    return close(got, float(o), scale_of(a, m)), got, float(o)


def check_path(d, ft, R1, Rg):
    a, m = ms.am_of(ft)
    direct = ms.impl_collective(d, ('from_to', [ft[0]], [ft[1]]), Rg)[0][0]
    a1, m1 = ms.impl_collective(d, ('from_to', [ft[0]], [ft[1]]), R1)
    if not (math.isfinite(a1[0]) and math.isfinite(m1[0]) and a1[0] > 0):
        return None
    two = ms.impl_collective(d, ('range_mean', [2 * a1[0]], [m1[0]]), Rg)[0][0]
    return close(two, direct, scale_of(a, m) + a1[0] + abs(m1[0])), two, direct


def iface_disagree(d, ft, Rg, all_diagrams=None, frame=None):
    """one cycle through the plain function, the DataFrame accessor (both column conventions, optionally one diagram per
    element) and the histogram accessor (one-class matrices of both kinds); True if the amplitudes differ"""
    a, m = ms.am_of(ft)
    fa, fm, sc = float(a), float(m), scale_of(a, m)
    vals = {'plain': ms.impl_plain(d, [fa], [fm], Rg)[0],
            'collective/from_to': ms.impl_collective(d, ('from_to', [ft[0]], [ft[1]]), Rg)[0][0],
            'collective/range_mean': ms.impl_collective(d, ('range_mean', [2 * fa], [fm]), Rg, 'named')[0][0]}
    w = fa / 2.
    if fa > 0:
        h1 = ms.hist_series('range_mean', [2 * fa - w, 2 * fa + w], [fm - w, fm + w], [[1]])
        vals['histogram/range_mean'] = float(ms.impl_hist_transform(d, h1, Rg)[0].iloc[0]) / 2.
        h2 = ms.hist_series('from_to', [fm - fa - w, fm - fa + w], [fm + fa - w, fm + fa + w], [[1]])
        vals['histogram/from_to'] = float(ms.impl_hist_transform(d, h2, Rg)[0].iloc[0]) / 2.
    if all_diagrams:
        out = ms.impl_collective_multi(all_diagrams, ('from_to', [ft[0]], [ft[1]]), Rg, frame)
        k = [i for i, dd in enumerate(all_diagrams) if dd == d]
        if k:
            vals['collective/one diagram per element'] = out[k[0]][0][0]
    ref = vals['plain']
    return any(not close(x, ref, sc, 1e-12) for x in vals.values())


def replay_violation(v):
    """re-evaluates a recorded violation on the implementation; returns True if it still fails"""
    d, Rg = v['diagram'], v['R_goal']
    what = v['what']
    if what == W_IFACE:
        return iface_disagree(d, tuple(v['cycle']), Rg, v.get('all_diagrams'), v.get('frame'))
    if what in (W_CLOSED, W_FIX) and 'cycle' in v:
        ft = tuple(v['cycle'])
        if what == W_FIX:
            got = ms.impl_plain(d, [float(ms.am_of(ft)[0])], [float(ms.am_of(ft)[1])], Rg)[0]
            return not close(got, float(ms.am_of(ft)[0]), scale_of(*ms.am_of(ft)))
        r = check_closed(d, ft, Rg)
        return r is not None and not r[0]
    if what in (W_PATH, W_IDEM):
        r = check_path(d, tuple(v['cycle']), v['R_1'], Rg)
        return r is not None and not r[0]
    if what in (W_MONO, W_CONT):
        m = v['mean']
        out = ms.impl_plain(d, v['amplitudes'], [m] * len(v['amplitudes']), Rg)
        if what == W_MONO:
            return any(out[i + 1] < out[i] - 1e-12 * max(1.0, abs(out[i])) for i in range(len(out) - 1))
        return abs(out[1] - out[0]) > v['bound']
    if what in (W_CONS, W_RGOAL, W_BOOK):
        s = ms.hist_series(v['hist_kind'], v['x_breaks'], v['y_breaks'], v['counts'], v.get('extra'), v.get('order'))
        try:
            r = ms.impl_hist_fkm(d, s, Rg)
            tot = float(r.sum())
        except Exception:
            return True
        if what == W_CONS:
            return abs(tot - float(s.sum())) > 1e-9
        if what == W_BOOK:
            return booking_defect(d, s, r, Rg) is not None
        return hist_goal_defect(r, Rg) is not None
    return True


def aligned_ranges(d, s, Rg):
    """transformed range of every class of the matrix s, by LABEL (HaighDiagram.transform may return the rows in another
    order than s lists them): (Series aligned with s, Series as returned)"""
    ranges, _ = ms.impl_hist_transform(d, s, Rg)
    al = ranges.reorder_levels(s.index.names) if list(ranges.index.names) != list(s.index.names) else ranges
    return al.reindex(s.index), ranges


def booking_defect(d, s, r, Rg):
    """re-bins, with the result intervals of the implementation, the transformed range of every class (taken by label, equal
    to the plain function's result: W_IFACE) and compares bin by bin (and per value of the extra levels) with the result r of
    the matrix interface; returns None or (result label, observed, expected)"""
    al, _ = aligned_ranges(d, s, Rg)
    rv = al.to_numpy(dtype=float)
    cnt = s.to_numpy(dtype=float)
    extra_names = [n for n in s.index.names if n not in ('range', 'mean', 'from', 'to')]
    extra_vals = [s.index.get_level_values(n).to_numpy() for n in extra_names]
    for lab, got in r.items():
        lab = dict(zip(r.index.names, lab))
        iv = lab['range']
        m = ((rv >= iv.left) if iv.left == 0.0 else (rv > iv.left)) & (rv <= iv.right)
        for n, vals in zip(extra_names, extra_vals):
            m = m & (vals == lab[n])
        exp = float(cnt[m].sum())
        if abs(exp - float(got)) > 1e-9:
            return (str(lab), float(got), exp)
    return None


def hist_goal_defect(r, Rg):
    rm = r.index.get_level_values('range').mid.to_numpy(dtype=float)
    mm = r.index.get_level_values('mean').mid.to_numpy(dtype=float)
    exp = rm / 2. * (1. + Rg) / (1. - Rg)
    bad = np.abs(mm - exp) > 1e-9 * np.maximum(1.0, np.abs(exp))
    return int(np.argmax(bad)) if bad.any() else None


# --------------------------------------------------------------------------- stage D

def batch(res, rng, d, Rg, stats, terms, info, cyc=None):
    """one diagram, one target, ~10 cycles through plain function + DataFrame accessor (+ second leg)."""
    cyc = cyc or ms.gen_cycles(rng, d, Rg, 10)
    fr, to = [c[0] for c in cyc], [c[1] for c in cyc]
    am = [ms.am_of(c) for c in cyc]
    fa, fm = [float(a) for a, m in am], [float(m) for a, m in am]
    layout = rng.choice(['range', 'range', 'named', 'multi', 'strings'])
    as_rm = rng.random() < 0.5
    cols = ('range_mean', [2 * a for a in fa], fm) if as_rm else ('from_to', fr, to)
    amps, means = ms.impl_collective(d, cols, Rg, layout)
    plain = ms.impl_plain(d, fa, fm, Rg)
    stats['calls'] += 2
    dl, gl = ms.diagram_lit(d), ms.elit(Rg)
    ctor = 'cyc_of_range_mean' if as_rm else 'cyc_of_from_to'
    for k, (ft, (a, m)) in enumerate(zip(cyc, am)):
        sc = scale_of(a, m)
        args = (qlit(2 * fa[k]), qlit(fm[k])) if as_rm else (qlit(ft[0]), qlit(ft[1]))
        Rc = cyc_R_float(ft)
        # model vs implementation: amplitude and mean of the resulting collective (mean only where it is finite).
        # While the finding segment-listing-order reproduces, the cases of its class are not compared: there the result depends
        # on the order in which sort_values() (default kind: not stable) returns the two tied segments, which the code leaves
        # unspecified and the model (stable sort) cannot predict; the property's relations below run on them all the same.
        if stats['fofx'].startswith('false') and in_listing_class(dict(diagram=d, R_goal=Rg, cycle=list(ft))):
            stats['tie_order_unspecified'] += 1
        elif math.isfinite(amps[k]) and math.isfinite(means[k]):
            terms.append('obs_close %s %s (transform_ord %s %s %s (%s %s %s)) %s %s' % (
                qlit(TOL), qlit(sc), stats['fofx'], dl, gl, ctor, args[0], args[1], qlit(amps[k]), qlit(means[k])))
        else:
            terms.append('false')
        if len(info) < len(terms):
            info.append({'diagram': d, 'R_goal': Rg, 'cycle': list(ft), 'interface': 'collective/' + cols[0] + '/' + layout,
                         'impl_amplitude': amps[k], 'impl_mean': means[k]})
            stats['nontrivial'].add((repr(sorted(d.items(), key=str)), Rg, ft))
        key = 'R>1' if (Rc != -INF and Rc > 1) else 'R=-inf' if Rc == -INF else 'R<=0' if Rc <= 0 else '0<R<1'
        stats['cycle_regions'][key] = stats['cycle_regions'].get(key, 0) + 1
        base = dict(diagram=d, R_goal=Rg, cycle=list(ft))
        # interfaces agree (same numbers through the plain function and the accessor)
        if not close(plain[k], amps[k], sc, 1e-12):
            res.violation(W_IFACE, observed={'plain': plain[k], 'collective': amps[k]}, interface=cols[0] + '/' + layout, **base)
        # closed form (exact oracle, independent of the segment algorithm)
        o = ms.oracle(d, a, m, Rg)
        if o is not None and o > 0:
            stats['oracle'] += 1
            if not close(plain[k], float(o), sc):
                res.violation(W_CLOSED, observed=plain[k], expected=float(o), **base)
        # a cycle already at the target keeps its amplitude
        if Rc == Rg:
            stats['at_target'] += 1
            if not close(plain[k], fa[k], sc):
                res.violation(W_FIX, observed=plain[k], expected=fa[k], **base)
    # second leg: path independence (R_1 random) or idempotence (R_1 = R_goal)
    idem = rng.random() < 0.25
    R1 = Rg if idem else ms.gen_goal(rng, d)
    if R1 != 1.0 and ms.denominators_ok(d, R1):
        a1, m1 = ms.impl_collective(d, ('from_to', fr, to), R1) if not idem else (amps, means)
        keep = [k for k in range(len(cyc)) if math.isfinite(a1[k]) and math.isfinite(m1[k]) and a1[k] > 0
                and (ms.oracle(d, am[k][0], am[k][1], R1) or 0) > 0 and (ms.oracle(d, am[k][0], am[k][1], Rg) or 0) > 0]
        if keep:
            two = ms.impl_collective(d, ('range_mean', [2 * a1[k] for k in keep], [m1[k] for k in keep]), Rg)[0]
            stats['calls'] += 2
            for j, k in enumerate(keep):
                stats['paths'] += 1
                sc = scale_of(*am[k]) + a1[k] + abs(m1[k])
                if not close(two[j], amps[k], sc):
                    res.violation(W_IDEM if idem else W_PATH, diagram=d, R_goal=Rg, R_1=R1, cycle=list(cyc[k]),
                                  observed=two[j], expected=amps[k], first_leg={'amplitude': a1[k], 'mean': m1[k]})


def mono_batch(res, rng, d, Rg, stats):
    """fixed mean, increasing amplitudes (fine steps across the segment borders a = |m|): non-decreasing, no jumps"""
    m = ms.dyadic(rng, -8, 8, 4)
    base = sorted({ms.dyadic(rng, 1. / 8, 12, 8) for _ in range(8)} | ({abs(m)} if m != 0 else set()))
    amps = []
    for a in base:
        amps += [a - 2.0 ** -12, a, a + 2.0 ** -12] if a > 2.0 ** -10 else [a]
    amps = sorted(set(amps))
    keep = [a for a in amps if (ms.oracle(d, F(a), F(m), Rg) or 0) > 0]
    if len(keep) < 2:
        return
    out = ms.impl_plain(d, keep, [m] * len(keep), Rg)
    stats['calls'] += 1
    for i in range(len(keep) - 1):
        stats['mono_pairs'] += 1
        if out[i + 1] < out[i] - 1e-12 * max(1.0, abs(out[i])):
            res.violation(W_MONO, diagram=d, R_goal=Rg, mean=m, amplitudes=[keep[i], keep[i + 1]], observed=[out[i], out[i + 1]])
        # continuity: the exact oracle is piecewise linear in a with bounded slope; take its own local slope as reference
        o0, o1 = ms.oracle(d, F(keep[i]), F(m), Rg), ms.oracle(d, F(keep[i + 1]), F(m), Rg)
        bound = 4 * abs(float(o1 - o0)) + 1e-9 * max(1.0, abs(out[i]))
        if keep[i + 1] - keep[i] <= 2.0 ** -11 and abs(out[i + 1] - out[i]) > bound:
            res.violation(W_CONT, diagram=d, R_goal=Rg, mean=m, amplitudes=[keep[i], keep[i + 1]],
                          observed=[out[i], out[i + 1]], bound=bound)


def gen_frame(rng, n):
    """index layout of the frame of parameter sets (one row per element) and of the collective: the element ids as the
    frame lists them (ascending / descending / any order, as node ids come out of a mesh) and the order in which the
    collective lists the elements (same as the frame / another order).  Returns (frame or None, coverage key)."""
    q = rng.random()
    if q < 0.2:
        return None, 'ids ascending (7, 10, ..), collective in the same order'
    ids = sorted(rng.sample(range(1, 40), n))
    if q < 0.35:
        key = 'ids ascending'
    elif q < 0.5:
        ids.reverse()
        key = 'ids descending'
    else:
        while ids == sorted(ids):
            rng.shuffle(ids)
        key = 'ids not sorted' if ids != sorted(ids, reverse=True) else 'ids descending'
    coll = None
    if rng.random() < 0.4:
        coll = list(ids)
        rng.shuffle(coll)
        if coll == ids:
            coll = None
    return {'ids': ids, 'coll': coll}, key + (', collective in another order' if coll else ', collective in the same order')


def multi_batch(res, rng, kind, stats, terms, info, case=None):
    """one Haigh diagram per element (DataFrame of parameters): every element must behave like the single-diagram call"""
    n = rng.choice([2, 3, 4])
    if case:
        ds, n = case['all_diagrams'], len(case['all_diagrams'])
    elif kind == 'fkm':
        ds = [ms.gen_fkm(rng) for _ in range(n)]
        with_m2 = all(dd['M2'] is not None for dd in ds)
        if not with_m2:
            for dd in ds:
                dd['M2'] = None
    else:
        ds = [ms.gen_five(rng) for _ in range(n)]
    Rg = case['R_goal'] if case else ms.gen_goal(rng, ds[0])
    if Rg == 1.0 or not all(ms.denominators_ok(dd, Rg) for dd in ds):
        return
    cyc = [tuple(c) for c in case['cycles']] if case else ms.gen_cycles(rng, ds[0], Rg, 6)
    fr, to = [c[0] for c in cyc], [c[1] for c in cyc]
    frame, key = (case['frame'], 'corpus') if case else gen_frame(rng, n)
    stats['multi_frames'][key] = stats['multi_frames'].get(key, 0) + 1
    try:
        out = ms.impl_collective_multi(ds, ('from_to', fr, to), Rg, frame)
    except Exception as e:      # layouts pandas / the broadcaster rejects are not part of the property
        stats['multi_rejected'] = stats.get('multi_rejected', 0) + 1
        stats['multi_rejected_example'] = repr(e)[:200]
        return
    stats['calls'] += 1
    for k, dd in enumerate(ds):
        single = ms.impl_collective(dd, ('from_to', fr, to), Rg)
        stats['calls'] += 1
        for j, ft in enumerate(cyc):
            a, m = ms.am_of(ft)
            sc = scale_of(a, m)
            stats['multi'] += 1
            if not close(out[k][0][j], single[0][j], sc, 1e-12):
                res.violation(W_IFACE, diagram=dd, R_goal=Rg, cycle=list(ft), interface='one diagram per element',
                              observed={'per element': out[k][0][j], 'single': single[0][j]}, all_diagrams=ds, frame=frame,
                              element_id=(frame['ids'][k] if frame else None))
            if math.isfinite(out[k][0][j]) and math.isfinite(out[k][1][j]):
                terms.append('obs_close %s %s (transform_ord %s %s %s (cyc_of_from_to %s %s)) %s %s' % (
                    qlit(TOL), qlit(sc), stats['fofx'], ms.diagram_lit(dd), ms.elit(Rg), qlit(ft[0]), qlit(ft[1]),
                    qlit(out[k][0][j]), qlit(out[k][1][j])))
            else:
                terms.append('false')
            info.append({'diagram': dd, 'R_goal': Rg, 'cycle': list(ft), 'interface': 'collective, one diagram per element', 'frame': frame,
                         'impl_amplitude': out[k][0][j], 'impl_mean': out[k][1][j]})


def gen_hist(rng):
    kind = rng.choice(['range_mean', 'from_to'])
    nx, ny = rng.randint(1, 5), rng.randint(1, 5)
    if nx * ny == 1:
        nx = 2
    wx, wy = rng.choice([0.25, 0.5, 1.0, 2.0]), rng.choice([0.25, 0.5, 1.0, 2.0])
    if kind == 'range_mean':
        x0 = rng.choice([0.0, 0.0, 0.5, 1.0])
        y0 = ms.dyadic(rng, -6, 4, 2)
    else:
        x0, y0 = ms.dyadic(rng, -6, 3, 2), ms.dyadic(rng, -4, 4, 2)
    if rng.random() < 0.2:      # non-uniform classes
        xb = [x0] + list(np.cumsum([rng.choice([0.25, 0.5, 1.0]) for _ in range(nx)]) + x0)
        yb = [y0] + list(np.cumsum([rng.choice([0.25, 0.5, 1.0]) for _ in range(ny)]) + y0)
    else:
        xb = [x0 + wx * i for i in range(nx + 1)]
        yb = [y0 + wy * i for i in range(ny + 1)]
    extra = [1, 2] if rng.random() < 0.3 else None
    def mat():
        return [[rng.choice([0, 0, 1, 2, 3, 5, 10]) for _ in range(ny)] for _ in range(nx)]
    counts = [mat(), mat()] if extra else mat()
    # index layout of the matrix: level order and row order (product order / rows listed in another order)
    names = (['range', 'mean'] if kind == 'range_mean' else ['from', 'to']) + (['node_id'] if extra else [])
    order = None
    q = rng.random()
    if q < 0.45:
        n = nx * ny * (2 if extra else 1)
        perm = list(range(n))
        if q < 0.3:
            rng.shuffle(perm)
        elif q < 0.38:
            perm.reverse()
        else:                       # two rows swapped
            i, j = rng.sample(range(n), 2)
            perm[i], perm[j] = perm[j], perm[i]
        levels = None
        if rng.random() < 0.3:
            levels = list(names)
            rng.shuffle(levels)
        order = {'levels': levels, 'perm': perm}
    elif q < 0.55:
        levels = list(names)
        rng.shuffle(levels)
        order = {'levels': levels, 'perm': None}
    # sparse matrix: only some of the classes are listed (the empty cells dropped: mat[mat > 0]; a random subset; without the
    # "diagonal" i == j), in whatever row order was chosen above -- in particular still lexicographically sorted
    if rng.random() < (0.5 if order is None else 0.3):
        n = nx * ny * (2 if extra else 1)
        flat = (np.stack([np.asarray(c, float) for c in counts], axis=-1) if extra else np.asarray(counts, float)).ravel()
        cell = [(i, j) for i in range(nx) for j in range(ny) for _ in range(2 if extra else 1)]
        pos = list(order['perm']) if order and order.get('perm') is not None else list(range(n))
        mode = rng.choice(['nonzero', 'nonzero', 'subset', 'offdiagonal'])
        if mode == 'nonzero':
            keep = [k for k, p in enumerate(pos) if flat[p] > 0]
        elif mode == 'subset':
            keep = [k for k in range(n) if rng.random() < 0.6]
        else:
            keep = [k for k, p in enumerate(pos) if cell[p][0] != cell[p][1]]
        if 2 <= len(keep) < n:
            order = dict(order or {'levels': None, 'perm': None}, keep=keep)
    return kind, [float(v) for v in xb], [float(v) for v in yb], counts, extra, order


def first_appearance_not_ascending(s):
    """some index level of the matrix whose values do not FIRST APPEAR in ascending order down the rows (only possible for
    a matrix that is not the full product): HaighDiagram.transform groups by first appearance, so it returns the rows of such
    a matrix in another order than the matrix lists them even when the matrix is sorted"""
    for lv in range(s.index.nlevels):
        vals = list(dict.fromkeys(s.index.get_level_values(lv)))
        if any(not (a < b) for a, b in zip(vals, vals[1:])):
            return True
    return False


def hist_batch(res, rng, stats, terms, info, rterms, rinfo, case=None):
    if case:
        d, Rg = case['diagram'], case['R_goal']
        kind, xb, yb, counts, extra, order = (case[k] for k in ('hist_kind', 'x_breaks', 'y_breaks', 'counts', 'extra', 'order'))
    else:
        d = ms.gen_fkm(rng)
        Rg = ms.gen_goal(rng, d, matrix=True)
        kind, xb, yb, counts, extra, order = gen_hist(rng)
    s = ms.hist_series(kind, xb, yb, counts, extra, order)
    base = dict(diagram=d, R_goal=Rg, hist_kind=kind, x_breaks=xb, y_breaks=yb, counts=counts, extra=extra, order=order)
    key = 'product order' if order is None or (order.get('perm') is None and not order.get('levels')) else (
        'rows reordered' if order.get('perm') is not None else 'levels reordered')
    if order and order.get('keep') is not None:
        key += ', sparse' + (' (rows sorted)' if s.index.is_monotonic_increasing else ' (rows not sorted)')
        if s.index.is_monotonic_increasing and first_appearance_not_ascending(s):
            stats['hist_sparse_sorted_regrouped'] += 1
    stats['hist_layouts'][key] = stats['hist_layouts'].get(key, 0) + 1
    lx, ly = ('range', 'mean') if kind == 'range_mean' else ('from', 'to')
    x = s.index.get_level_values(lx).mid.to_numpy(dtype=float)
    y = s.index.get_level_values(ly).mid.to_numpy(dtype=float)
    if kind == 'range_mean':
        amp, mean = x / 2., y
    else:
        amp, mean = np.abs(x - y) / 2., (x + y) / 2.
    if not (amp > 0).any():
        stats['hist_degenerate'] += 1
        return
    # transformed range of every class, taken by label (rv, in the row order of s), and as HaighDiagram.transform returns
    # them (ranges_pos: _rebin_results pairs these positionally with the counts)
    try:
        ranges, ranges_pos = aligned_ranges(d, s, Rg)
    except Exception as e:      # index layouts pandas / the broadcaster rejects are not part of the property
        stats['hist_rejected'] = stats.get('hist_rejected', 0) + 1
        stats['hist_rejected_example'] = repr(e)[:200]
        return
    rv = [float(v) for v in ranges.to_numpy()]
    plain = ms.impl_plain(d, [float(v) for v in amp], [float(v) for v in mean], Rg)
    try:
        r = ms.impl_hist_fkm(d, s, Rg)
        tot_out = float(r.sum())
    except Exception as e:      # a valid histogram must be transformable: no result = cycles lost
        res.violation(W_CONS, observed='exception %r' % e, expected=float(s.sum()), **base)
        return
    stats['calls'] += 3
    stats['hist'] += 1
    ctor = 'cyc_of_hist_range_mean' if kind == 'range_mean' else 'cyc_of_hist_from_to'
    if extra is not None:       # a sparse matrix need not list every node
        extra = [nid for nid in extra if nid in set(s.index.get_level_values('node_id'))]
    for k in range(len(rv)):
        sc = scale_of(amp[k], mean[k])
        if not close(rv[k] / 2., plain[k], sc, 1e-12):
            res.violation(W_IFACE, observed={'histogram class': rv[k] / 2., 'plain': plain[k]}, interface='histogram/' + kind,
                          cycle=[float(mean[k] - amp[k]), float(mean[k] + amp[k])], diagram=d, R_goal=Rg)
        if extra is None or s.index.get_level_values('node_id')[k] == extra[0]:
            terms.append('obs_amp_close %s %s (transform_ord %s %s %s (%s %s %s)) %s' % (
                qlit(TOL), qlit(sc), stats['fofx'], ms.diagram_lit(d), ms.elit(Rg), ctor, qlit(x[k]), qlit(y[k]), qlit(rv[k] / 2.)))
            info.append({'diagram': d, 'R_goal': Rg, 'interface': 'histogram/' + kind, 'class_mids': [float(x[k]), float(y[k])],
                         'impl_amplitude': rv[k] / 2.})
    # conservation of the number of cycles (the property itself, on the implementation)
    tot_in = float(s.sum())
    if abs(tot_in - tot_out) > 1e-9:
        res.violation(W_CONS, observed=tot_out, expected=tot_in, **base)
    if len(r) == 0:                # nothing left to compare (only possible together with the violation above)
        stats['hist_empty_result'] = stats.get('hist_empty_result', 0) + 1
        return
    if extra is not None:
        for nid in extra:
            ti, to_ = float(s.xs(nid, level='node_id').sum()), float(r.xs(nid, level='node_id').sum())
            if abs(ti - to_) > 1e-9:
                res.violation(W_CONS, observed=to_, expected=ti, node_id=nid, **base)
    if len(r) and hist_goal_defect(r, Rg) is not None:
        res.violation(W_RGOAL, observed=str(r.index[hist_goal_defect(r, Rg)]), **base)
    # every class is booked into the result class its transformed range belongs to (bin by bin, not only in total)
    stats['hist_booked'] += 1
    bd = booking_defect(d, s, r, Rg)
    if bd is not None:
        res.violation(W_BOOK, result_class=bd[0], observed=bd[1], expected=bd[2], **base)
    # re-binning model vs implementation; hypotheses of matrix_conserves_cycles on the real intervals
    ri = r.index.get_level_values('range')
    # sum_intervals pairs ranges.values with obj.iloc[...] by POSITION (code as it is) / the repaired code aligns them by label
    paired = ranges if stats['rebin_by_label'] else ranges_pos
    if extra is None:
        itv = list(ri)
        vals = [float(v) for v in r.to_numpy()]
        cyc = [float(v) for v in s.to_numpy()]
        rr = [float(v) for v in paired.to_numpy()]
    else:
        nid = extra[0]
        sub = r.xs(nid, level='node_id')
        itv = list(sub.index.get_level_values('range'))
        vals = [float(v) for v in sub.to_numpy()]
        cyc = [float(v) for v in s.xs(nid, level='node_id').to_numpy()]
        rr = [float(v) for v in paired.xs(nid, level='node_id').to_numpy()]
    breaks = [float(itv[0].left)] + [float(iv.right) for iv in itv]
    hyp = (breaks[0] == 0.0 and all(b1 > b0 for b0, b1 in zip(breaks, breaks[1:])) and breaks[-1] == max(rv)
           and min(rv) >= 0.0)
    stats['rebin_hyp_ok'] += 1 if hyp else 0
    stats['rebin_hyp_bad'] += 0 if hyp else 1
    if not hyp and len(stats['rebin_hyp_examples']) < 3:
        stats['rebin_hyp_examples'].append({'breaks': breaks, 'max': max(rv), 'min': min(rv)})
    rterms.append('all_close %s 1 (rebin %s %s %s) %s' % (qlit(TOL), ms.qlist(breaks), ms.qlist(rr), ms.qlist(cyc), ms.qlist(vals)))
    rinfo.append(dict(base, breaks=breaks, transformed_ranges=rr, result=vals))


def signed_zero_batch(res, rng, stats):
    """collective cycles with an IEEE negative zero as upper / lower value (e.g. the result of -1 * 0.0 or of a rounding
    towards zero from below): -0.0 == 0.0, so the cycle is the same cycle and every interface must return what the plain
    function returns for (amplitude, mean)."""
    d = ms.gen_fkm(rng) if rng.random() < 0.6 else ms.gen_five(rng)
    Rg = ms.gen_goal(rng, d)
    if Rg == 1.0 or not ms.denominators_ok(d, Rg):
        return
    u = [ms.dyadic(rng, 1. / 4, 8, 4) for _ in range(4)]
    cyc = [(-u[0], -0.0), (-0.0, -u[1]), (-0.0, u[2]), (u[3], -0.0)]
    fr, to = [c[0] for c in cyc], [c[1] for c in cyc]
    am = [ms.am_of(c) for c in cyc]
    amps = ms.impl_collective(d, ('from_to', fr, to), Rg, rng.choice(['range', 'named', 'multi']))[0]
    plain = ms.impl_plain(d, [float(a) for a, m in am], [float(m) for a, m in am], Rg)
    stats['calls'] += 2
    for k, ft in enumerate(cyc):
        o = ms.oracle(d, am[k][0], am[k][1], Rg)
        if o is None or o <= 0:
            continue
        stats['signed_zero'] += 1
        if not close(plain[k], amps[k], scale_of(*am[k]), 1e-12):
            res.violation(W_IFACE, observed={'plain': plain[k], 'collective': amps[k]}, interface='from_to/signed zero',
                          diagram=d, R_goal=Rg, cycle=list(ft))


def compare_retry(name, requires, terms, shard):
    """coq_compare, repeated when a shard died without a Coq error message (killed / out of memory / timeout):
    that is an infrastructure failure, not a disagreement."""
    def shard_died(bad, log):
        b = set(bad)
        whole = any(all(i in b for i in range(k, min(k + shard, len(terms)))) for k in range(0, len(terms), shard))
        return whole and 'Error' not in log
    bad, log = common.coq_compare(name, requires, terms, shard=shard)
    tries = 0
    while bad and shard_died(bad, log) and tries < 2:
        tries += 1
        bad, log = common.coq_compare(name, requires, terms, shard=shard)
    return bad, log


def load_corpus():
    import glob
    import json
    import os
    out = []
    for f in sorted(glob.glob(os.path.join(common.CORPUS, 'C12', '*.json'))):
        out += json.load(open(f))
    return out


def corpus_of(key):
    """'cycles' + 'diagram': one-diagram batches; 'all_diagrams': one parameter set per element; 'hist_kind': matrices"""
    return [c for c in load_corpus() if key in c and (key != 'cycles' or 'diagram' in c)]


def run(res):
    quick = res.tier == 'quick'
    rng = res.rng
    register_classes(res)
    res.trusted += ['hand-written Gallina model coq/theories/Strength/MeanStress.v, tied by the correspondence check (this harness)',
                    'exact Fraction oracle in harness/ms.py (closed form written from the geometry of the Haigh diagram, not from the code)']
    res.assumptions += ['float rounding is outside the theorems: model and oracle are compared with the implementation at 1e-9 relative to '
                        'max(1, amplitude + |mean|)',
                        'amplitude > 0, 0 <= M2 <= M < 1 resp. five-segment parameters with 0 < R12 < R23 < 1 and no vanishing divisor; '
                        'R_goal not in {1, +inf}; cycles whose exact iso-damage amplitude is not positive are skipped by the relations',
                        'pandas sort_values keeps the tie (1, inf) before (-inf, 0) for the listing order of the constructors (default kind; with this numpy it is NOT '
                        'stable in general for >= 4 float64 values -- part of the open finding segment-listing-order); checked by the correspondence on every run']
    res.cov['rule'] = ('diagrams: FKM-Goodman (M dyadic in [0,1), M2 <= M, M2 = M, M2 = 0, default M/3) and five-segment (dyadic and non-dyadic R12 < R23, '
                       'slopes in [0,1), 10% wild slopes in [-2,2] with divisors bounded away from 0); targets: -inf, borders 0/R12/R23, segment mids '
                       '(distance 0), dyadic R < 1 and R > 1; cycles: random dyadic (amplitude, mean), exactly on borders / on the target / 2^-k beside '
                       'them, compressive R > 1; interfaces: plain function, DataFrame accessor (range/mean or from/to; RangeIndex, named, MultiIndex, '
                       'string index; one diagram per element: 2-4 different parameter sets, frame ids ascending / descending / any order, the collective listing the '
                       'elements in the same or another order), histogram accessor (range/mean and from/to matrices, optional node level; 55% product order, else rows '
                       'shuffled / reversed / two rows swapped and / or index levels reordered; 50% / 30% of these SPARSE: only the non-empty classes, a random subset or '
                       'all but the diagonal are listed); 40% of the non-wild diagrams additionally through HaighDiagram.from_dict '
                       'in a random rotation of the natural segment order; collective cycles with -0.0 as upper or lower value; '
                       'non-trivial = distinct (diagram, target, cycle) triples whose model/implementation pair was compared')
    common.standard_proof_stage(res, 'C12')

    stats = {'calls': 0, 'oracle': 0, 'paths': 0, 'at_target': 0, 'mono_pairs': 0, 'multi': 0, 'hist': 0, 'hist_degenerate': 0,
             'skipped_goal_or_divisor': 0, 'nontrivial': set(), 'cycle_regions': {}, 'rebin_hyp_ok': 0, 'rebin_hyp_bad': 0,
             'rebin_hyp_examples': [], 'hist_layouts': {}, 'hist_booked': 0, 'signed_zero': 0, 'listed': {},
             'tie_order_unspecified': 0, 'multi_frames': {}, 'hist_sparse_sorted_regrouped': 0}
    terms, info, rterms, rinfo = [], [], [], []
    # which variant of the model is the code?  fx = false: the code with the open finding five-segment-target-neg-inf
    # (cycles at R > 1 are not moved when R_goal = -inf); fx = true: the repaired code.  Decided by replaying the finding's
    # witness; every generated case is then compared with that ONE variant (the variants differ only inside the finding's class).
    kf = [e for e in common.known_findings('C12') if e['id'] == 'five-segment-target-neg-inf']
    defect_present = replay_violation(dict(KF_WITNESS, what=W_CLOSED))
    stats['fx'] = 'false' if defect_present else 'true'
    res.cov['model_variant'] = 'fx=%s (%s)' % (stats['fx'], 'code as it is, finding reproduces' if defect_present else 'repaired code')
    if defect_present and not any(e.get('status') == 'open' for e in kf):
        res.violation(W_CLOSED, **KF_WITNESS)
    # fo = false: the code as it is (ties between (1, inf) and (-inf, 0) are processed in listing order: open finding
    # segment-listing-order); fo = true: the code with fixes/C12-segment-listing-order.patch.  Same procedure as for fx.
    listing_defect = replay_violation(dict(KF_LISTING, what=W_CLOSED))
    stats['fofx'] = '%s %s' % ('false' if listing_defect else 'true', stats['fx'])
    if listing_defect and not any(e['id'] == 'segment-listing-order' and e.get('status') == 'open' for e in common.known_findings('C12')):
        res.violation(W_CLOSED, **KF_LISTING)
    # re-binning: the code as it is pairs transformed ranges and counts by position (open finding matrix-row-order);
    # the code with fixes/C12-matrix-row-order.patch pairs them by label.  The model's rebin gets what the code pairs.
    rows_defect = replay_violation(dict(KF_ROWS, what=W_BOOK))
    stats['rebin_by_label'] = not rows_defect
    if rows_defect and not any(e['id'] == 'matrix-row-order' and e.get('status') == 'open' for e in common.known_findings('C12')):
        res.violation(W_BOOK, **KF_ROWS)
    res.cov['model_variant'] += '; fo=%s (segments walked in %s); re-binning pairs by %s' % (
        'false' if listing_defect else 'true', 'listing order of ties, finding reproduces' if listing_defect else 'repaired tie order',
        'position (finding reproduces)' if rows_defect else 'label (repaired code)')
    import time
    t0 = time.time()
    for c in corpus_of('cycles'):          # hand-picked edge cases and minimised earlier failures run first
        batch(res, rng, c['diagram'], c['R_goal'], stats, terms, info, cyc=[tuple(x) for x in c['cycles']])
    for c in corpus_of('all_diagrams'):    # several parameter sets, frame index not sorted
        multi_batch(res, rng, c['all_diagrams'][0]['kind'], stats, terms, info, case=c)
    for c in corpus_of('hist_kind'):       # sparse sorted matrices
        hist_batch(res, rng, stats, terms, info, rterms, rinfo, case=c)
    stats['corpus_batches'] = len(load_corpus())
    n_batch = 160 if quick else 1500
    for it in range(n_batch):
        wild = it % 10 == 7
        d = ms.gen_fkm(rng) if it % 2 == 0 else ms.gen_five(rng, wild)
        listed = it % 5 in (1, 2) and not wild
        if listed:      # the same diagram through HaighDiagram.from_dict, segments listed in a rotated order
            d = dict(d, listing=rng.randrange(3 if d['kind'] == 'fkm' else 5))
            stats['listed'][d['listing']] = stats['listed'].get(d['listing'], 0) + 1
        Rg = ms.gen_goal(rng, d)
        if Rg == 1.0 or not ms.denominators_ok(d, Rg):
            stats['skipped_goal_or_divisor'] += 1
            continue
        batch(res, rng, d, Rg, stats, terms, info)
        if it % 4 == 0 and not wild and not listed:
            mono_batch(res, rng, d, Rg, stats)
    for it in range(10 if quick else 100):
        signed_zero_batch(res, rng, stats)
    for it in range(12 if quick else 120):
        multi_batch(res, rng, 'fkm' if it % 2 == 0 else 'five', stats, terms, info)
    for it in range(40 if quick else 400):
        hist_batch(res, rng, stats, terms, info, rterms, rinfo)
    if quick:       # the quick tier's 12 batches above leave few frames with unsorted ids: 12 more (the thorough tier has 120)
        for it in range(12):
            multi_batch(res, rng, 'five' if it % 2 == 0 else 'fkm', stats, terms, info)

    res.cov['wall_impl_s'] = round(time.time() - t0, 1)
    t0 = time.time()
    bad, log = compare_retry('C12', ms.REQ, terms, 400)
    res.oblige('correspondence model = implementation on %d transformed cycles (amplitude and mean, three interfaces)' % len(terms),
               not bad, 'disagreeing cases: %s\n%s' % ([info[i] for i in bad[:4]], log[-1500:]))
    rbad, rlog = compare_retry('C12r', ms.REQ, rterms, 60)
    res.oblige('correspondence re-binning model = implementation on %d histograms' % len(rterms),
               not rbad, 'disagreeing cases: %s\n%s' % ([rinfo[i] for i in rbad[:2]], rlog[-1500:]))
    res.oblige('result intervals of the matrix interface start at 0, increase strictly and end at the largest transformed range '
               '(hypotheses of matrix_conserves_cycles) on %d histograms' % (stats['rebin_hyp_ok'] + stats['rebin_hyp_bad']),
               stats['rebin_hyp_bad'] == 0, stats['rebin_hyp_examples'])
    res.cov['wall_coq_compare_s'] = round(time.time() - t0, 1)
    # disagreeing correspondence cases seed the failing-input search (closed form on exactly those inputs)
    for i in bad[:40]:
        c = info[i]
        if 'cycle' in c:
            r = check_closed(c['diagram'], tuple(c['cycle']), c['R_goal'])
            if r is not None and not r[0]:
                res.violation(W_CLOSED, diagram=c['diagram'], R_goal=c['R_goal'], cycle=c['cycle'], observed=r[1], expected=r[2])
    res.add_cases(len(terms) + len(rterms), nontrivial=len(stats['nontrivial']))
    res.add_cases(stats['oracle'] + stats['paths'] + stats['mono_pairs'] + stats['multi'], nontrivial=0)
    for k in ('corpus_batches', 'calls', 'oracle', 'paths', 'at_target', 'mono_pairs', 'multi', 'hist', 'hist_degenerate', 'skipped_goal_or_divisor',
              'cycle_regions', 'hist_layouts', 'hist_booked', 'signed_zero', 'listed', 'tie_order_unspecified', 'multi_frames',
              'hist_sparse_sorted_regrouped'):
        res.cov['impl_' + k if k == 'calls' else k] = stats[k]
    res.cov['listed'] = {'from_dict listing (rotation of the natural order) %d' % k: v for k, v in sorted(stats['listed'].items())}
    for k in ('multi_rejected', 'multi_rejected_example', 'hist_rejected', 'hist_rejected_example'):
        if k in stats:
            res.cov[k] = stats[k]
    res.cov['correspondence_disagreements'] = len(bad) + len(rbad)
    for c in info[:3] + info[len(info) // 2:len(info) // 2 + 3] + info[-2:]:
        res.sample(c)

    # ---- E: known findings
    res.replay_known(lambda e: replay_violation(dict(e['witness'], what=e['what'])))


def replay(res, rp):
    v = rp.get('violation')
    if v and 'diagram' in v:
        register_classes(res)
        fails = replay_violation(v)
        print('replay: %s -> %s' % (v['what'], 'still fails' if fails else 'holds'))
        if fails:
            kw = {k: x for k, x in v.items() if k != 'what'}
            res.violation(v['what'], **kw)
        res.add_cases(1, 0)
        res.oblige('replayed input satisfies the property', not fails)
    else:
        run(res)
    return res.finish()
