"""C07 -- the binned notch law is the wrapped law sampled at the upper class edge.

Model: coq/theories/Laws/Binned.v (hand-written over Q, generic in the tabulated column of the wrapped law).
Tie: correspondence by vm_compute
  (Ia) with an injected exact law on grids where the float edges k/n*Lmax are the exact rationals: the whole
       construction (tables, four observables, scalar / Series / per-point look-ups) is compared exactly;
  (II) with ExtendedNeuber / SeegerBeste / injected law on arbitrary float grids: the table rows are taken from the
       implementation's own _lut_* (checked in Coq to lie within 2^-52 of the exact grid), only the class selection
       is compared, on the float edges the implementation produced, their float neighbours, 0, +-max, above max.
On every run the property's own relations are evaluated on the implementation (they double as the failing-input
search): value at the least float edge >= |load| with the load's sign, ValueError exactly above the maximum, table =
wrapped law on the grid, never under-estimates / within one class / monotone, Series = scalars, per-point = single."""
import bisect
import json
import math
from fractions import Fraction as F

import numpy as np
import pandas as pd

import common

MANIFEST = dict(
    text='Theorems (props/C07.v, 22, all closed under the global context) about a hand-written Gallina model over Q of '
         'notch_approximation_law.Binned, generic in the tabulated column of the wrapped law: the prefix count meets numpy\'s '
         'searchsorted(side=left) contract; lookup_is_upper_edge (value = sgn L * v(k/n*Lmax), k = max 1 ceil(|L| n/Lmax)), the selected '
         'edge is the least edge >= |L|, edge_hits_own_class / above_edge_hits_next_class, zero_load_is_zero, out_of_range_errors + '
         'value_iff_in_range (primary range Lmax, secondary 2 Lmax), within_one_class, never_underestimates / within_one_class_value / '
         'monotone for a non-negative non-decreasing law, multi_table_is_single_tables, multi_equals_single (class from point 0, '
         'proportional loads, all maxima > 0) and its refutation when the first point has maximum 0 (known finding). '
         'The model is tied to the code on every run by a vm_compute correspondence check (exact injected law: whole construction; '
         'ExtendedNeuber/SeegerBeste: class selection on the implementation\'s own float tables, loads on/next to every float edge).',
    note=common.TB_NOTE + 'all C07 theorems are closed under the global context. The model is hand-written: the correspondence harness '
         '(generators, float -> exact rational literals) is trusted. Float rounding is outside the theorems: float class edges are checked '
         'to lie within 2^-52 (relative) of k/n*Lmax and loads are compared on the float edges; the wrapped law (scipy Newton) is not '
         'modelled, table values are compared with a re-evaluation of the wrapped law (exactly for the injected law, the solver band 2*(tol + rtol*|s|) for the '
         'Newton/secant based laws). Per-point look-ups are compared for loads proportional to the per-point maxima (documented precondition).',
    technique='Coq proof (QArith, lra/nra, induction) over hand-written Gallina model + vm_compute correspondence on float class edges',
    design='6/C07')

REQ = ['From PL Require Import Laws.Binned.']

W_RAISE_IN = 'in-range load raises instead of returning the value of its class'
W_NO_RAISE = 'load above the initialised maximum does not raise ValueError'
W_VALUE = 'look-up is not the wrapped law at the upper edge of the load class with the sign of the load'
W_TABLE = 'look-up table is not the wrapped law on the grid k/n * maximum load'
W_BOUNDS = 'binned value under-estimates the exact law or exceeds it by more than one class'
W_MONO = 'binned law is not monotone in the load'
W_SERIES = 'Series look-up differs from the scalar look-ups'
W_MULTI = 'per-point look-up differs from the single-point look-ups'
W_MTABLE = 'per-point tables differ from the tables each point gets alone'

# observable, branch, value column, load column, number of classes / n
OBS = (('stress', 'P', 'stress', 'load', 1),
       ('strain', 'P', 'strain', 'load', 1),
       ('stress_secondary_branch', 'S', 'delta_stress', 'delta_load', 2),
       ('strain_secondary_branch', 'S', 'delta_strain', 'delta_load', 2))
OBSD = {o[0]: o for o in OBS}


def solver_band(law, obs, loads, want):
    """How far two evaluations of a Newton/secant based wrapped law may differ: the laws stop at a step of
    tol + rtol*|x| with tol = rtol = 1e-4 (defaults used by Binned), so stresses agree to 2*(1e-4 + 1e-4*|s|);
    strains are a closed form of (stress, load): the band is the strain change over that stress band."""
    want = np.asarray(want, float)

    def stress_band(st, secondary):
        st = np.abs(np.asarray(st, float))
        band = 2e-4 + 2e-4 * st
        if type(law).__name__ == 'SeegerBeste':
            # Seeger-Beste in the (nearly) elastic regime: eq. 2.8-42 is degenerate there and the secant solver returns
            # values up to 1 % off, differently for every call pattern -- the registered C06 findings
            # sb-near-elastic-root / sb-near-elastic-inverse (class: plastic strain share <= 1 %).  That noise belongs to
            # the wrapped law, not to the binning, so two evaluations may differ by it.
            sa = st / (2.0 if secondary else 1.0)
            pl = np.power(sa / law._K, 1.0 / law._n)
            share = pl / np.maximum(sa / law._E + pl, 1e-300)
            band = np.where(share <= 1e-2, np.maximum(band, 1e-2 * st), band)
        return band

    if 'stress' in obs:
        return stress_band(want, 'secondary' in obs)
    x = pd.Series(np.asarray(loads, float))
    if obs == 'strain':
        s = pd.Series(np.asarray(law.stress(x), float))
        f = law.strain
    else:
        s = pd.Series(np.asarray(law.stress_secondary_branch(x), float))
        f = law.strain_secondary_branch
    d = pd.Series(stress_band(s, obs != 'strain'))
    mid = np.asarray(f(s, x), float)
    band = np.maximum(np.abs(np.asarray(f(s + d, x), float) - mid), np.abs(np.asarray(f(s - d, x), float) - mid))
    return band + 1e-12 + 1e-9 * np.abs(want)


# --------------------------------------------------------------------------- laws

class InjLaw:
    """Injected wrapped law; exact in floats on small dyadic grids (integer coefficients)."""

    def __init__(self, a, b, c, d):
        self.a, self.b, self.c, self.d = a, b, c, d

    def stress(self, load, **kw):
        return self.a * load

    def strain(self, stress, load):
        return stress / 4 + self.b * load * load / 8

    def stress_secondary_branch(self, delta_load, **kw):
        return self.c * delta_load

    def strain_secondary_branch(self, delta_stress, delta_load):
        return delta_stress / 2 + self.d * delta_load * delta_load / 16


def inj_exact(coef, obs, x):
    """The injected law in exact arithmetic (Fractions) -- the oracle for the injected law."""
    a, b, c, d = coef
    x = F(x)
    if obs == 'stress':
        return a * x
    if obs == 'strain':
        return a * x / 4 + b * x * x / 8
    if obs == 'stress_secondary_branch':
        return c * x
    return c * x / 2 + d * x * x / 16


def inj_coq(coef, obs):
    a, b, c, d = coef
    if obs == 'stress':
        return '(fun L => (%d#1) * L)' % a
    if obs == 'strain':
        return '(fun L => ((%d#1) * L) / 4 + (%d#1) * L * L / 8)' % (a, b)
    if obs == 'stress_secondary_branch':
        return '(fun L => (%d#1) * L)' % c
    return '(fun L => ((%d#1) * L) / 2 + (%d#1) * L * L / 16)' % (c, d)


def make_law(spec):
    import pylife.materiallaws.notch_approximation_law as NL
    if spec['kind'] == 'inj':
        return InjLaw(*spec['coef'])
    args = (spec['E'], spec['K'], spec['n'], spec['K_p'])
    if spec['kind'] == 'EN':
        return NL.ExtendedNeuber(*args)
    from pylife.materiallaws.notch_approximation_law_seegerbeste import SeegerBeste
    return SeegerBeste(*args)


def law_eval(law, obs, loads):
    """Wrapped law column `obs` on an array of loads (>= 2 elements: SeegerBeste rejects scalars, finding of C06)."""
    x = pd.Series(np.asarray(loads, float))
    if obs == 'stress':
        return np.asarray(law.stress(x), float)
    if obs == 'strain':
        return np.asarray(law.strain(law.stress(x), x), float)
    if obs == 'stress_secondary_branch':
        return np.asarray(law.stress_secondary_branch(x), float)
    return np.asarray(law.strain_secondary_branch(law.stress_secondary_branch(x), x), float)


_CACHE = {}


def node_index(cfg):
    ids = cfg.get('node_ids') or list(range(1, len(cfg['Lmax']) + 1))
    return pd.Index(ids, name='node_id')


def get_binned(cfg):
    """cfg: dict(law=spec, Lmax=float | [floats], bins=int[, node_ids]).  Returns (Binned | None, law, error)."""
    import pylife.materiallaws.notch_approximation_law as NL
    key = json.dumps(cfg, sort_keys=True)
    if key not in _CACHE:
        law = make_law(cfg['law'])
        try:
            if isinstance(cfg['Lmax'], list):
                mx = pd.Series([float(x) for x in cfg['Lmax']], index=node_index(cfg))
                b = NL.Binned(law, mx, cfg['bins'])
            else:
                b = NL.Binned(law, float(cfg['Lmax']), cfg['bins'])
            _CACHE[key] = (b, law, None)
        except Exception as e:          # construction itself fails: reported by the table relation
            _CACHE[key] = (None, law, '%s: %s' % (type(e).__name__, e))
        if len(_CACHE) > 400:
            _CACHE.pop(next(iter(_CACHE)))
    return _CACHE[key]


def lut_of(b, branch):
    return b._lut_primary_branch if branch == 'P' else b._lut_secondary_branch


def single_cols(b, obs):
    _, br, vcol, lcol, _ = OBSD[obs]
    lut = lut_of(b, br)
    return [float(x) for x in lut[lcol].to_numpy()], [float(x) for x in lut[vcol].to_numpy()]


def point_cols(b, obs, node_id):
    _, br, vcol, lcol, _ = OBSD[obs]
    sub = lut_of(b, br).xs(node_id, level='node_id')
    return [float(x) for x in sub[lcol].to_numpy()], [float(x) for x in sub[vcol].to_numpy()]


def call_impl(b, obs, load):
    """-> ('val', float | [floats]) | ('ValueError', msg) | ('exc', 'TypeName: msg')"""
    try:
        if obs == 'stress':
            r = b.stress(load)
        elif obs == 'stress_secondary_branch':
            r = b.stress_secondary_branch(load)
        else:
            # Binned.strain*(stress, load) depends on the load only (the stress argument is not used): it is called
            # with a stress of the opposite sign and a different magnitude than the binned stress of that load
            try:
                first = b.stress(load) if obs == 'strain' else b.stress_secondary_branch(load)
                other = -(first * 1.5) - np.sign(first)
            except Exception:
                other = -(load * 1.5) - np.sign(load)
            r = b.strain(other, load) if obs == 'strain' else b.strain_secondary_branch(other, load)
    except ValueError as e:
        return ('ValueError', str(e)[:120])
    except Exception as e:
        return ('exc', '%s: %s' % (type(e).__name__, str(e)[:120]))
    if isinstance(load, pd.Series):
        arr = np.asarray(r, float).reshape(-1)
        return ('val', [float(x) for x in arr])
    arr = np.asarray(r, float).reshape(-1)
    if arr.size != 1:
        return ('exc', 'scalar load returned %d values' % arr.size)
    return ('val', float(arr[0]))


def sgn(x):
    return 1.0 if x > 0 else (-1.0 if x < 0 else 0.0)


def expect_scalar(edges, vals, L):
    """The property on the implementation's own float table: value of the least edge >= |L| with the sign of L;
    ValueError iff |L| exceeds the top edge.  (bisect = an independent binary search on Python floats.)"""
    j = bisect.bisect_left(edges, abs(L))
    if j >= len(edges):
        return ('ValueError', None), j
    return ('val', sgn(L) * vals[j]), j


def same(a, b):
    if a[0] != b[0]:
        return False
    if a[0] != 'val':
        return True
    x, y = a[1], b[1]
    if isinstance(x, list) != isinstance(y, list):
        return False
    if isinstance(x, list):
        return len(x) == len(y) and all(p == q for p, q in zip(x, y))
    return x == y


# --------------------------------------------------------------------------- the property's relations on the implementation

def eval_case(case):
    """One concrete input of the property -> None if it holds, else (what, detail dict).
    case: dict(cfg=..., obs=..., mode='scalar'|'series'|'multi'|'table'|'bounds', load=float | [floats])."""
    cfg, mode = case['cfg'], case['mode']
    b, law, err = get_binned(cfg)
    if b is None:
        return W_TABLE, {'observed': 'construction failed: ' + err}
    if mode == 'table':
        return check_tables(cfg, b, law)
    obs = case['obs']
    if mode == 'scalar':
        edges, vals = single_cols(b, obs)
        L = float(case['load'])
        exp, _ = expect_scalar(edges, vals, L)
        got = call_impl(b, obs, L)
        return classify(exp, got)
    if mode == 'series':
        edges, vals = single_cols(b, obs)
        Ls = [float(x) for x in case['load']]
        exps = [expect_scalar(edges, vals, L)[0] for L in Ls]
        exp = ('ValueError', None) if any(e[0] != 'val' for e in exps) else ('val', [e[1] for e in exps])
        got = call_impl(b, obs, pd.Series(Ls))
        r = classify(exp, got)
        if r and r[0] == W_VALUE:
            return W_SERIES, r[1]
        return r
    if mode == 'multi':
        ids = list(node_index(cfg))
        Ls = [float(x) for x in case['load']]
        exps, classes = [], []
        for nid, Lm, L in zip(ids, cfg['Lmax'], Ls):
            edges, vals = point_cols(b, obs, nid)
            e, j = expect_scalar(edges, vals, L)
            exps.append(e)
            if Lm > 0:
                classes.append(j)
        if len(set(classes)) > 1:
            return 'skip', {'reason': 'points fall into different classes (not proportional up to float rounding)'}
        if all(e[0] != 'val' for e, Lm in zip(exps, cfg['Lmax']) if Lm > 0) and any(Lm > 0 for Lm in cfg['Lmax']):
            exp = ('ValueError', None)
        elif any(e[0] != 'val' for e in exps):
            return 'skip', {'reason': 'some points in range, some not'}
        else:
            exp = ('val', [e[1] for e in exps])
        got = call_impl(b, obs, pd.Series(Ls, index=node_index(cfg)))
        r = classify(exp, got)
        if r:
            d = r[1]
            first = []
            for nid, L in zip(ids, Ls):
                edges, vals = point_cols(b, obs, nid)
                first.append(sgn(L) * vals[0])
            d['defect_signature'] = 'class 1 for every point' if got == ('val', first) else 'other'
            return W_MULTI, d
        return None
    if mode == 'bounds':
        return check_bounds(cfg, b, law, obs, [float(x) for x in case['load']])
    raise ValueError('unknown mode %r' % mode)


def classify(exp, got):
    if same(exp, got):
        return None
    d = {'expected': exp, 'observed': got}
    if exp[0] == 'val' and got[0] != 'val':
        return W_RAISE_IN, d
    if exp[0] == 'ValueError':
        return W_NO_RAISE, d
    return W_VALUE, d


def exact_edge(cfg_Lmax, n, k):
    return F(k, n) * F(float(cfg_Lmax))


def check_tables(cfg, b, law):
    """Table construction: number of classes, class_index 1..m, float edges within 2^-52 of k/n*Lmax and strictly
    ascending, value columns = the wrapped law on the load column; per-point tables = single-point tables."""
    n = cfg['bins']
    multi = isinstance(cfg['Lmax'], list)
    inj = cfg['law']['kind'] == 'inj'
    pts = list(zip(node_index(cfg), cfg['Lmax'])) if multi else [(None, cfg['Lmax'])]
    for obs, br, vcol, lcol, fac in OBS:
        m = fac * n
        lut = lut_of(b, br)
        if len(lut) != m * len(pts):
            return W_TABLE, {'obs': obs, 'observed': 'table has %d rows' % len(lut), 'expected': '%d classes x %d points' % (m, len(pts))}
        ci = sorted(set(int(x) for x in lut.index.get_level_values('class_index')))
        if ci != list(range(1, m + 1)):
            return W_TABLE, {'obs': obs, 'observed': 'class_index %s..%s (%d values)' % (ci[0], ci[-1], len(ci)), 'expected': '1..%d' % m}
        for nid, Lm in pts:
            edges, vals = point_cols(b, obs, nid) if multi else single_cols(b, obs)
            for k, e in enumerate(edges, 1):
                ex = exact_edge(Lm, n, k)
                if abs(F(e) - ex) > ex * F(1, 2 ** 52):
                    return W_TABLE, {'obs': obs, 'point': nid, 'class': k, 'observed': 'edge %r' % e, 'expected': 'k/n*Lmax = %r' % float(ex)}
            if Lm > 0 and any(x >= y for x, y in zip(edges, edges[1:])):
                return W_TABLE, {'obs': obs, 'point': nid, 'observed': 'edges not strictly ascending'}
            if edges[-1] != fac * float(Lm):      # the maximum itself is always looked up: it must be the top edge exactly
                return W_TABLE, {'obs': obs, 'point': nid, 'observed': 'top edge %r' % edges[-1], 'expected': 'the initialised range %r' % (fac * float(Lm))}
            if inj:
                for k, (e, v) in enumerate(zip(edges, vals), 1):
                    want = inj_exact(cfg['law']['coef'], obs, e)
                    if float(want) != v and abs(F(v) - want) > abs(want) * F(1, 2 ** 50):
                        return W_TABLE, {'obs': obs, 'point': nid, 'class': k, 'observed': v, 'expected': float(want)}
            else:
                want = law_eval(law, obs, edges)
                tol = solver_band(law, obs, edges, want)
                bad = np.nonzero(~(np.abs(np.asarray(vals) - want) <= tol))[0]
                if len(bad):
                    k = int(bad[0])
                    return W_TABLE, {'obs': obs, 'point': nid, 'class': k + 1, 'observed': vals[k], 'expected': float(want[k])}
    if multi:
        for nid, Lm in pts:
            if not Lm > 0:
                continue
            sb, _, _ = get_binned(dict(law=cfg['law'], Lmax=float(Lm), bins=n))
            if sb is None:
                continue
            for obs, br, vcol, lcol, fac in OBS:
                e1, v1 = point_cols(b, obs, nid)
                e2, v2 = single_cols(sb, obs)
                if e1 != e2:
                    return W_MTABLE, {'obs': obs, 'point': nid, 'observed': 'load columns differ'}
                if inj:
                    ok = v1 == v2
                else:
                    tol = solver_band(law, obs, e2, v2)
                    ok = bool(np.all(np.abs(np.asarray(v1) - np.asarray(v2)) <= tol))
                if not ok:
                    return W_MTABLE, {'obs': obs, 'point': nid, 'observed': 'value columns differ'}
    return None


def check_bounds(cfg, b, law, obs, loads):
    """Consequences on the implementation against the exact wrapped law (sorted, in-range, non-zero loads):
    same sign, |binned| >= |exact(L)|, |binned| <= |exact(|L| + class width)|, monotone."""
    n = cfg['bins']
    w = float(cfg['Lmax']) / n
    loads = sorted(loads)
    got = [call_impl(b, obs, L) for L in loads]
    for L, g in zip(loads, got):
        if g[0] != 'val':
            return W_RAISE_IN, {'load': L, 'observed': g}
    q = np.array([g[1] for g in got])
    if np.any(np.diff(q) < 0):
        i = int(np.argmax(np.diff(q) < 0))
        return W_MONO, {'loads': [loads[i], loads[i + 1]], 'observed': [float(q[i]), float(q[i + 1])]}
    a = np.abs(np.array(loads))
    if cfg['law']['kind'] == 'inj':
        lo = np.array([float(inj_exact(cfg['law']['coef'], obs, x)) for x in a])
        hi = np.array([float(inj_exact(cfg['law']['coef'], obs, F(x) + F(w))) for x in a])
        tol = 1e-12 * (1 + hi)
    else:
        both = law_eval(law, obs, np.concatenate([a, a + w]))
        lo, hi = both[:len(a)], both[len(a):]
        tol = solver_band(law, obs, np.concatenate([a, a + w]), both)
        tol = np.maximum(tol[:len(a)], tol[len(a):])
    for i, L in enumerate(loads):
        if L == 0:
            if q[i] != 0:
                return W_BOUNDS, {'load': L, 'observed': float(q[i]), 'expected': 0.0}
            continue
        if sgn(q[i]) != sgn(L) or abs(q[i]) < lo[i] - tol[i] or abs(q[i]) > hi[i] + tol[i]:
            return W_BOUNDS, {'load': L, 'observed': float(q[i]), 'exact_law_at_load': float(lo[i]),
                              'exact_law_one_class_above': float(hi[i])}
    return None


# --------------------------------------------------------------------------- generators

EN1 = dict(kind='EN', E=206e3, K=1184.0, n=0.187, K_p=3.5)
EN2 = dict(kind='EN', E=206e3, K=2650.5, n=0.187, K_p=3.5)
EN3 = dict(kind='EN', E=70e3, K=650.0, n=0.11, K_p=1.6)
SB1 = dict(kind='SB', E=206e3, K=1184.0, n=0.187, K_p=3.5)


def rand_inj(rng):
    return dict(kind='inj', coef=[rng.randint(1, 7) for _ in range(4)])


def own_edges(Lmax, n, m):
    """k/n*Lmax in double arithmetic, evaluated here (independently of the implementation)."""
    return [float(np.float64(k) / np.float64(n) * np.float64(Lmax)) for k in range(1, m + 1)]


def exact_grid_config(rng, n):
    """(Lmax) such that every float edge k/n*Lmax, k <= 2n, is the exact rational."""
    for _ in range(40):
        u, j = rng.randint(1, 64), rng.randint(0, 4)
        Lmax = n * u / 2.0 ** j
        if all(F(e) == F(k, n) * F(Lmax) for k, e in enumerate(own_edges(Lmax, n, 2 * n), 1)):
            return Lmax
    return None


def edge_loads(rng, edges, top, budget):
    """Loads on / next to float class edges, 0, +-top, just above top, far above, random; both signs."""
    ks = list(range(len(edges)))
    if len(ks) > budget:
        keep = {0, 1, len(ks) - 1, len(ks) - 2}
        keep |= set(rng.sample(ks, budget))
        ks = sorted(keep & set(ks))
    out = [0.0, -0.0, 5e-324, top, -top, math.nextafter(top, math.inf), -math.nextafter(top, math.inf),
           math.nextafter(top, 0.0), 1.5 * top, -3.0 * top, 1e300]
    for k in ks:
        e = edges[k]
        trio = [e, math.nextafter(e, math.inf), math.nextafter(e, -math.inf)]
        s = rng.choice([1.0, -1.0])
        out += [s * x for x in trio] + [-s * rng.choice(trio)]
    for _ in range(max(6, budget // 2)):
        out.append(rng.uniform(-1.15, 1.15) * top)
    return out


# --------------------------------------------------------------------------- Coq side

def Q(x):
    """Exact rational image of a float as a Coq Q literal; hexadecimal numerals (parsed ~2x faster than decimal)."""
    fr = F(x)
    n, d = fr.numerator, fr.denominator
    return '(%s # %s)' % (('(-%s)' % hex(-n)) if n < 0 else hex(n), hex(d))


def qpairs(xs, ys):
    return '[' + '; '.join('(%s, %s)' % (Q(x), Q(y)) for x, y in zip(xs, ys)) + ']'


def outcome_term(model, out, multi):
    """bool term comparing a model expression with the implementation's outcome."""
    if out[0] == 'val':
        if multi:
            return 'mres_eqb %s (MVal %s)' % (model, common.coq_list(out[1], Q))
        return 'res_eqb %s (Val %s)' % (model, Q(out[1]))
    if out[0] == 'ValueError':
        return ('mres_eqb %s MErr' if multi else 'res_eqb %s Err') % model
    return 'false'       # any other exception: no counterpart in the model


def run_coq(items):
    """items: [(name, prelude, [bool terms])] -> {name: (bad indices, log)}; one coqc per item, in parallel."""
    import re
    files = []
    for name, prelude, terms in items:
        t = 'From Coq Require Import ZArith QArith List Bool.\nImport ListNotations.\n' + '\n'.join(REQ) + '\nOpen Scope Q_scope.\n' + prelude + '\n'
        t += 'Definition cases : list (Z * bool) := [\n' + ';\n'.join('(%d%%Z, %s)' % (i, c) for i, c in enumerate(terms)) + '].\n'   # Z indices: unary nat literals made elaboration quadratic
        t += 'Definition bad := map fst (filter (fun p => negb (snd p)) cases).\nEval vm_compute in (length cases, bad).\n'
        files.append(('C07_' + name, t))
    outs = common.coq_scratch_many(files, timeout=900)
    for attempt in range(2):     # a coqc that was killed (no 'Error' of its own, no result line) is an infrastructure failure: retry
        redo = [i for i, (ok, out) in enumerate(outs) if not ok and 'Error' not in out]
        if not redo:
            break
        for i in redo:
            outs[i] = common.coq_scratch(files[i][0], files[i][1], 900)
    res = {}
    for (name, _, terms), (ok, out) in zip(items, outs):
        m = re.search(r'=\s*\((\d+)%?n?a?t?,\s*\[(.*?)\]\)', out.replace('\n', ' '), flags=re.S)
        if not ok or not m or int(m.group(1)) != len(terms):
            res[name] = (list(range(len(terms))), out[-1500:])
        else:
            res[name] = ([int(x) for x in re.findall(r'\d+', m.group(2))], '')
    return res


class Plan:
    """Collects, per configuration, the Coq correspondence terms and the property-level cases."""

    def __init__(self, res):
        self.res = res
        self.items = []          # (name, prelude, terms)
        self.descr = {}          # name -> [case descriptor per term]
        self.cases = []          # property-level cases (dicts for eval_case)
        self.nontrivial = set()
        self.skipped = 0
        self.hist = {}

    def count(self, key):
        self.hist[key] = self.hist.get(key, 0) + 1


def plan_single(plan, rng, cfg, exact, budget):
    """One single-point configuration: table terms + scalar and Series look-ups for the four observables."""
    b, law, err = get_binned(cfg)
    plan.cases.append(dict(cfg=cfg, mode='table'))
    if b is None:
        return
    n, Lmax = cfg['bins'], float(cfg['Lmax'])
    name = 'cfg%d' % len(plan.items)
    prelude, terms, descr = [], [], []
    for obs, br, vcol, lcol, fac in OBS:
        m = fac * n
        edges, vals = single_cols(b, obs)
        T = 'T_' + obs
        if exact:
            prelude.append('Definition %s := table %s %s %d %d.' % (T, inj_coq(cfg['law']['coef'], obs), Q(Lmax), n, m))
            terms.append('rows_eqb %s %s' % (T, qpairs(edges, vals)))
        else:
            prelude.append('Definition %s : list (Q * Q) := %s.' % (T, qpairs(edges, vals)))
            terms.append('edges_close (map fst %s) (edges %s %d %d)' % (T, Q(Lmax), n, m))
        descr.append(dict(cfg=cfg, mode='table', obs=obs))
        top = fac * Lmax
        loads = edge_loads(rng, edges if edges else [top], top, budget)
        eset = set(edges)
        for L in loads:
            case = dict(cfg=cfg, obs=obs, mode='scalar', load=L)
            out = call_impl(b, obs, L)
            terms.append(outcome_term('(lookup %s %s)' % (T, Q(L)), out, False))
            descr.append(case)
            plan.cases.append(case)
            a = abs(L)
            if a > top or a in eset or math.nextafter(a, math.inf) in eset or math.nextafter(a, 0.0) in eset:
                plan.nontrivial.add((name, obs, L))
            plan.count('out-of-range' if a > top else 'in-range')
        # Series against the single table: a few in-range batches and one with an out-of-range entry
        for t in range(3):
            pool = [L for L in loads if abs(L) <= top]
            Ls = [rng.choice(pool) for _ in range(rng.randint(1, 6))]
            if t == 2:
                Ls.insert(rng.randint(0, len(Ls)), rng.choice([1.0, -1.0]) * math.nextafter(top, math.inf))
            case = dict(cfg=cfg, obs=obs, mode='series', load=Ls)
            out = call_impl(b, obs, pd.Series(Ls))
            terms.append(outcome_term('(lookup_series %s %s)' % (T, common.coq_list(Ls, Q)), out, True))
            descr.append(case)
            plan.cases.append(case)
            plan.count('series')
        # consequences against the exact law
        inr = sorted(set(L for L in loads if abs(L) <= top and abs(L) > 1e-300))
        if len(inr) >= 2 and Lmax > 0:
            plan.cases.append(dict(cfg=cfg, obs=obs, mode='bounds', load=inr[:: max(1, len(inr) // 40)]))
    plan.items.append((name, '\n'.join(prelude), terms))
    plan.descr[name] = descr


def plan_multi(plan, rng, cfg, exact, nloads, u=None, jexp=None):
    """One per-point configuration (all maxima > 0): flat tables + proportional per-point look-ups."""
    b, law, err = get_binned(cfg)
    plan.cases.append(dict(cfg=cfg, mode='table'))
    if b is None:
        return
    n, Lms = cfg['bins'], [float(x) for x in cfg['Lmax']]
    P = len(Lms)
    ids = list(node_index(cfg))
    name = 'cfg%d' % len(plan.items)
    prelude, terms, descr = [], [], []
    for obs, br, vcol, lcol, fac in OBS:
        m = fac * n
        lut = lut_of(b, br)
        flat_e = [float(x) for x in lut[lcol].to_numpy()]
        flat_v = [float(x) for x in lut[vcol].to_numpy()]
        T = 'T_' + obs
        if exact:
            terms.append('rows_eqb (mtable %s %s %d %d) %s' % (inj_coq(cfg['law']['coef'], obs), common.coq_list(Lms, Q), n, m, qpairs(flat_e, flat_v)))
            descr.append(dict(cfg=cfg, mode='table', obs=obs))
            prelude.append('Definition %s (Ls : list Q) := mbinned %s %s %d %d Ls.' % (T, inj_coq(cfg['law']['coef'], obs), common.coq_list(Lms, Q), n, m))
        else:
            prelude.append('Definition R_%s : list (Q * Q) := %s.' % (obs, qpairs(flat_e, flat_v)))
            prelude.append('Definition %s (Ls : list Q) := mlookup_rows %d R_%s %d Ls.' % (T, P, obs, m))
        for _ in range(nloads):
            if exact:
                g = rng.choice([rng.randint(-(4 * m + 6), 4 * m + 6), 4 * rng.randint(-m, m), 4 * rng.randint(-m, m) + rng.choice([-1, 1])])
                Ls = [g * ui / 2.0 ** (jexp + 2) for ui in u]        # |L_i| / Lmax_i = |g| / (4 n) for every point, exactly
                if rng.random() < 0.5:                               # points scaled by negative factors
                    Ls = [rng.choice([1.0, -1.0]) * L for L in Ls]
            else:
                k = rng.randint(0, m)
                c = rng.choice([rng.uniform(-1.1, 1.1) * fac, k / n, -k / n, math.nextafter(k / n, math.inf), -math.nextafter(k / n, 0.0)])
                Ls = [c * Lm for Lm in Lms]
                if rng.random() < 0.5:
                    Ls = [rng.choice([1.0, -1.0]) * L for L in Ls]
            case = dict(cfg=cfg, obs=obs, mode='multi', load=Ls)
            r = eval_case(case)
            if r and r[0] == 'skip':
                plan.skipped += 1      # float rounding put the points into different classes: outside the model's precondition
                continue
            out = call_impl(b, obs, pd.Series(Ls, index=node_index(cfg)))
            terms.append(outcome_term('(%s %s)' % (T, common.coq_list(Ls, Q)), out, True))
            descr.append(case)
            plan.cases.append(case)
            plan.nontrivial.add((name, obs, tuple(Ls)))
            plan.count('multi')
    plan.items.append((name, '\n'.join(prelude), terms))
    plan.descr[name] = descr


def build_plan(res):
    rng = res.rng
    quick = res.tier == 'quick'
    plan = Plan(res)
    # (Ia) exact grids, injected law, whole construction
    ns = [1, 2, 3, 4, 5, 8, 10, 16, 100] if quick else [1, 2, 3, 4, 5, 7, 8, 10, 16, 25, 64, 100]
    reps = 1 if quick else 4
    for rep in range(reps):
        for n in ns:
            Lmax = exact_grid_config(rng, n)
            if Lmax is None:
                continue
            plan_single(plan, rng, dict(law=rand_inj(rng), Lmax=Lmax, bins=n), True, 12 if quick else 40)
    # (II) float grids, real laws + injected law, class selection on the implementation's own float tables
    big = 25 if quick else 100          # quick keeps three 100-class tables (default bin count), the rest smaller
    fl = [(EN1, 359.3, 100), (EN2, 1266.25 * 0.8, big), (SB1, 359.3, 100), (EN1, 250.0, 7), (EN3, 1000.0 / 3, big + 5),
          (EN1, 0.1, 10), (SB1, 400.0, 13), (rand_inj(rng), 359.3, 100), (rand_inj(rng), 1.4 * 260.0, 3), (rand_inj(rng), 77.7, 1)]
    nrand = 3 if quick else 40
    for _ in range(nrand):
        law = rng.choice([EN1, EN2, EN3, SB1, rand_inj(rng)])
        n = rng.randint(2, 40) if quick else rng.choice([rng.randint(2, 150), 100, 100])
        fl.append((law, rng.choice([rng.uniform(1.0, 2000.0), round(rng.uniform(1.0, 900.0), 1)]), n))
    for law, Lmax, n in fl:
        plan_single(plan, rng, dict(law=law, Lmax=Lmax, bins=n), False, 16 if quick else 40)
    # per-point tables: exact (Ia) and float (II)
    for rep in range(3 if quick else 16):
        n = rng.choice([1, 2, 3, 4, 5, 8, 10, 16])
        P = rng.randint(1, 4)
        for _ in range(40):
            jexp = rng.randint(0, 3)
            u = [rng.randint(1, 64) for _ in range(P)]
            Lms = [n * ui / 2.0 ** jexp for ui in u]
            if all(all(F(e) == F(k, n) * F(Lm) for k, e in enumerate(own_edges(Lm, n, 2 * n), 1)) for Lm in Lms):
                break
        else:
            continue
        ids = rng.sample(range(1, 50), P)
        plan_multi(plan, rng, dict(law=rand_inj(rng), Lmax=Lms, bins=n, node_ids=ids), True, 10 if quick else 30, u=u, jexp=jexp)
    for rep in range(3 if quick else 16):
        n = rng.choice([10, 100, rng.randint(2, 120)])
        P = rng.randint(2, 4)
        Lms = [rng.choice([rng.uniform(5.0, 1500.0), round(rng.uniform(5.0, 900.0), 1)]) for _ in range(P)]
        law = rng.choice([EN1, EN2, SB1, rand_inj(rng)])
        plan_multi(plan, rng, dict(law=law, Lmax=Lms, bins=n, node_ids=rng.sample(range(1, 50), P)), False, 8 if quick else 24)
    return plan


def corpus_cases():
    """Hand-picked / minimised inputs (corpus/C07/*.json), evaluated first on every run."""
    import glob
    import os
    out = []
    for f in sorted(glob.glob(os.path.join(common.CORPUS, 'C07', '*.json'))):
        out.append(json.load(open(f)))
    return out


def zero_first_cases(rng, k):
    """Per-point configurations whose FIRST point is unloaded (maximum 0): property level only (known finding)."""
    out = []
    for _ in range(k):
        n = rng.choice([10, 100])
        Lms = [0.0] + [round(rng.uniform(20.0, 900.0), 1) for _ in range(rng.randint(1, 3))]
        cfg = dict(law=rng.choice([EN1, rand_inj(rng)]), Lmax=Lms, bins=n)
        for obs, br, vcol, lcol, fac in OBS:
            c = rng.choice([rng.uniform(0.2, 1.0) * fac, -rng.uniform(0.2, 1.0) * fac, 1.5 * fac])
            out.append(dict(cfg=cfg, obs=obs, mode='multi', load=[c * Lm for Lm in Lms]))
    return out


def is_zero_first(d):
    cfg = d.get('cfg', {})
    Lm = cfg.get('Lmax')
    return (d.get('mode') == 'multi' and isinstance(Lm, list) and len(Lm) >= 2 and Lm[0] == 0 and any(x > 0 for x in Lm[1:])
            and d.get('defect_signature') == 'class 1 for every point')


def report(res, case, r):
    what, d = r
    kw = dict(case)
    kw.update(d)
    return res.violation(what, **kw)


def run(res):
    quick = res.tier == 'quick'
    res.classes['zero_first_point'] = is_zero_first
    res.trusted += ['hand-written Gallina model coq/theories/Laws/Binned.v, tied by the correspondence check (this harness)',
                    'exact float -> rational literals (Fraction) for loads, edges and table values']
    res.assumptions += ['float rounding is outside the theorems: float class edges are checked to lie within 2^-52 (relative) of k/n*Lmax; loads are compared on the float edges',
                        'the wrapped law is a black box: table values are compared with a re-evaluation of the wrapped law (exact for the injected law; within the solver band 2*(1e-4 + 1e-4*|s|) for the Newton/secant based laws)',
                        'per-point look-ups: loads proportional to the per-point maxima (documented precondition of the multi-point assessment), all maxima > 0',
                        'maximum load > 0, bins >= 1, finite loads (NaN not covered)']
    res.cov['rule'] = ('configurations: (Ia) injected integer-coefficient law on grids n in {1..100}, Lmax = n*u/2^j whose float edges are the exact rationals; '
                       '(II) ExtendedNeuber (3 materials) / SeegerBeste / injected law, Lmax in {359.3, 1013, 250, 1000/3, 0.1, ...} and random, bins 1..150; '
                       'per-point variants with 1-4 points. loads: every (sampled) float class edge, nextafter above and below, both signs, 0, -0, 5e-324, +-max, '
                       'nextafter above max, 1.5 max, 3 max, 1e300, uniform random; Series batches; proportional per-point loads on / next to edges. '
                       'non-trivial = distinct (configuration, observable, load) whose load is a float class edge, a float neighbour of one, above the range, or a per-point load vector')
    import time
    t0 = time.time()
    common.standard_proof_stage(res, 'C07')
    t1 = time.time()
    plan = build_plan(res)
    t2 = time.time()
    # ---- D1: correspondence model = implementation (vm_compute)
    outc = run_coq(plan.items)
    t3 = time.time()
    nterms, bad_cases = 0, []
    for name, prelude, terms in plan.items:
        bad, log = outc[name]
        nterms += len(terms)
        cfg = plan.descr[name][0]['cfg']
        res.oblige('correspondence model = implementation: %s, %d terms (law %s, Lmax %s, bins %d)' % (
            name, len(terms), cfg['law']['kind'], cfg['Lmax'], cfg['bins']), not bad,
            'disagreeing: %s\n%s' % ([plan.descr[name][i] for i in bad[:4]], log))
        bad_cases += [plan.descr[name][i] for i in bad]
    res.add_cases(nterms, nontrivial=len(plan.nontrivial))
    res.cov['correspondence_terms'] = nterms
    res.cov['correspondence_disagreements'] = len(bad_cases)
    res.cov['configurations'] = len(plan.items)
    res.cov['load_kind_histogram'] = plan.hist
    res.cov['multi_point_cases_skipped_float_class_ambiguity'] = plan.skipped
    for c in plan.cases[1:4] + [c for c in plan.cases if c['mode'] == 'multi'][:2]:
        res.sample(c)

    # ---- D2 / search: the property's relations on the implementation (disagreeing cases first)
    corpus = corpus_cases()
    res.cov['corpus_cases'] = len(corpus)
    todo = corpus + bad_cases[:200] + plan.cases + zero_first_cases(res.rng, 2 if quick else 10)
    nrel, shown = 0, {}
    for case in todo:
        try:
            r = eval_case(case)
        except Exception as e:
            r = ('relation could not be evaluated', {'observed': '%s: %s' % (type(e).__name__, e)})
        nrel += 1
        if r and r[0] != 'skip':
            if shown.get(r[0], 0) < 3:
                shown[r[0]] = shown.get(r[0], 0) + 1
                report(res, case, r)
    res.add_cases(nrel, nontrivial=0)
    res.cov['impl_relation_evaluations'] = nrel
    res.cov['stage_seconds'] = {'proofs': round(t1 - t0, 1), 'implementation runs': round(t2 - t1, 1), 'coq correspondence': round(t3 - t2, 1),
                                'relations': round(time.time() - t3, 1)}

    # ---- E: known findings
    res.replay_known(lambda e: still_fails(e))


def still_fails(entry):
    r = eval_case(entry['witness'])
    return bool(r) and r[0] == entry['what']


def replay(res, rp):
    v = rp.get('violation') or {}
    res.classes['zero_first_point'] = is_zero_first
    if 'cfg' in v and 'mode' in v:
        case = {k: v[k] for k in ('cfg', 'obs', 'mode', 'load') if k in v}
        r = eval_case(case)
        print('replay:', case, '->', r)
        res.add_cases(1, 0)
        if r and r[0] != 'skip':
            report(res, case, r)
        res.oblige('replayed input satisfies the property', not (r and r[0] != 'skip'), r)
    else:
        run(res)
    return res.finish()
