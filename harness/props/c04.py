"""C04 -- the second pass of the FKM-nonlinear HCM counting records exactly the steady-state hystereses.

Model: coq/theories/HCM/{Model,Load,Periodic}.v (hand-written).  Tie: correspondence by vm_compute between the load-only
model and the real FKMNonlinearDetector (an integer-valued law object is injected so that every float operation is exact),
on exhaustive small alphabets, random sequences and forced junction configurations.  On EVERY run the property's own relation
(pass-2 records of the implementation = steady_cycles of the sequence, Memory 3 only in pass 1 and symmetric, refinement by
non-reversal samples, stationarity of a third pass, length of a trailing plateau irrelevant) is evaluated on the implementation:
that is the failing-input search.
Known finding: the junction defect outside the class `z and p` (DESIGN 6/C04)."""
import json
import os

import time

import common
import hcm

WHAT = 'second-pass hystereses are not the closed cycles of the repeated sequence'
WHAT_REFINE = 'non-reversal samples change what the second pass counts'
WHAT_STATIONARY = 'a third pass does not repeat the second pass'
WHAT_DWELL = 'repeated samples at the end of the sequence change what is counted'

MANIFEST = dict(
    text='Theorems (props/C04.v) about a hand-written Gallina model of FKMNonlinearDetector (process_hcm_first/second, process, '
         '_adjust_samples_and_flush_for_hcm_first_run, _perform_hcm_algorithm, _hcm_process_sample with cases a)i, a)ii, b, c)i, c)ii A/B) '
         'and the load columns of FKMNonlinearRecorder: the model never reaches an IndexError branch (iz = number of residuals, unbounded); '
         'Memory-3 rows are symmetric about zero (unbounded); pass 2 records only full hystereses when the largest |load| is decided in '
         'pass 1 (unbounded; refuted without the hypothesis: [-1,2,2]); the property as written is REFUTED on the faithful model '
         '(witnesses [-2,0,-1], [-1,2,2], [-16,-6,-10,-15,-1] = known finding C04-junction-*), and the restricted statement '
         '(junction class z and p) -- pass-2 multiset = four-point cycles of the periodic reversal sequence rotated to its largest |load|, '
         'refinement insensitivity, stationarity of a third pass -- is proved BOUNDED: every sequence over {-3..3} of length <= 6 '
         '(vm_compute sweep + forallb_forall); the unbounded restricted statement is kept as a Definition and is not proved. '
         'The model is tied to the code by correspondence on (loads_min, loads_max, is_closed_hysteresis, run_index) of every row of two- and '
         'three-pass runs; the property relation itself is evaluated on the implementation on every run. Float loads: the code compares with '
         'an absolute tolerance of 1e-12; tolerant_compare_is_level_compare / level_abs_extent (unbounded, over R) show that such comparisons of '
         'loads, |loads| and extents lying within a small error of a grid c*level decide like the integer comparison of the levels, so the integer '
         'model also speaks about float inputs whose extreme loads / extents tie only up to rounding; these are generated on every run '
         '(levels scaled by c, each occurrence moved by a few ulps, error budget checked in exact rational arithmetic) and the detector must '
         'record what the model records for the levels. Repeated samples: squeeze_insensitive (unbounded, every number of passes) -- two '
         'sequences with the same samples up to repetition and the same flush decision of the first pass have the same records and HCM memory; '
         'dwell_insensitive (unbounded) -- the length of a trailing plateau of two or more samples is irrelevant. On every run blocks ending '
         'in a plateau of 2 and of L = 3..130 samples (and long monotone runs, leading / interior plateaus) go through the correspondence, and the '
         'implementation must count the two plateau lengths alike (one and three assessment points).',
    note=common.TB_NOTE + 'all C04 theorems are closed under the global context (no axioms). The model is hand-written: the correspondence harness, '
         'the injected integer-valued law object and the Python search oracle (tied to HCM/Periodic.v by vm_compute each run) are trusted; '
         'loads are integers in the model (exact on doubles); the 1e-12 tolerances of the code are exercised by float inputs with ulp-level '
         'near-ties whose levels are fed to the model (bridge: tolerant_compare_is_level_compare; that every comparison of the code is of this '
         'form, and the float rounding bound of the budget, are argued in harness/hcm.py, not proved); '
         'turning points come from Rainflow/Model.v new_turns (tied by C01).',
    technique='Coq proof (invariants by induction; refutation + bounded restricted equivalence by vm_compute) over hand-written Gallina model '
              '+ vm_compute correspondence + property relation on the implementation',
    design='6/C04')

CORPUS = [[-2, 0, -1], [-1, 2, 2], [-16, -6, -10, -15, -1], [1, -3, 2, -1], [0, -2], [1, 0, 1], [0, 0, 1, 0], [2, 2, -1, -1, 2],
          [1, 2, 3, 2, 1, -4, 0, 4, -2, 1], [5, -5, 4, -4, 3, -3, 2, -2, 1, -1], [1, -1, 2, -2, 3, -3, 4, -4], [3, 1, 2, 1, 2, 1, 3, -3]]

# hand-picked float inputs whose largest |load| / extents tie only up to rounding: (levels, loads, scale)
NT_CORPUS = [
    ([-3, 1, 3, -3, 3], [-0.3, 0.1, 0.1 + 0.2, -0.3, 0.3], 0.1),
    ([3, -1, 3, -3, 3], [0.3, -0.1, 0.1 + 0.2, -0.3, 0.1 + 0.2], 0.1),
    ([3, -3, 1, -1, 3, -3], [0.1 + 0.2, -0.3, 0.1, -0.1, 0.3, -(0.1 + 0.2)], 0.1),
    ([-6, 2, 6, -2, -6, 6], [-0.6, 0.2, 0.1 * 6, -0.2, -0.1 * 6, 0.6], 0.1),
    ([2, -1, 1, -2, 1, -1], [0.2, -0.1, 0.1, -0.2, 0.30000000000000004 - 0.2, -0.1], 0.1),
]


def classify(s):
    return hcm.z_class(s), hcm.p_class(s)


def register_classes(res):
    def mk(zv, pv):
        def pred(d):
            s = d.get('sequence')
            return s is not None and d.get('model_agrees') is True and classify(s) == (zv, pv)
        return pred
    res.classes['junction z and not p, model reproduces'] = mk(True, False)
    res.classes['junction not z and not p, model reproduces'] = mk(False, False)
    res.classes['junction not z and p, model reproduces'] = mk(False, True)


def corpus_cases():
    out = [list(c) for c in CORPUS]
    d = os.path.join(common.CORPUS, 'C04')
    if os.path.isdir(d):
        for f in sorted(os.listdir(d)):
            if f.endswith('.json'):
                try:
                    out.append([int(x) for x in json.load(open(os.path.join(d, f)))['sequence']])
                except Exception:
                    pass
    return out


def refinements(rng, s, n=2):
    """Sequences obtained from s by inserting samples that are not reversals of the repeated sequence (same periodic
    reversals), still in the junction class."""
    out = []
    base = hcm.periodic_reversals(s)
    for _ in range(12):
        if len(out) >= n:
            break
        i = rng.randint(0, len(s))
        a, b = s[i - 1] if i > 0 else s[-1], s[i] if i < len(s) else s[0]
        lo, hi = sorted((a, b))
        t = s[:i] + [rng.randint(lo, hi)] + s[i:]
        if hcm.periodic_reversals(t) == base and hcm.in_class(t):
            out.append(t)
    return out


def run(res):
    quick = res.tier == 'quick'
    rng = res.rng
    register_classes(res)
    res.trusted += ['hand-written Gallina model coq/theories/HCM/{Model,Load,Periodic}.v, tied by the correspondence check (this harness)',
                    'injected integer-valued law object harness/hcm.py:IntLaw (only loads, flags, run_index are compared here)',
                    'Python search oracle harness/hcm.py:steady_cycles/z_class/p_class, tied to HCM/Periodic.v / HCM/Load.v by vm_compute on every case']
    res.assumptions += ['loads are integers, or floats within 4d + rounding <= 9e-13 of a grid c*level with c >= 1e-3, |load| <= 300 (near-ties far below the '
                        'code\'s 1e-12 tolerance, grid far above it); loads whose distinct values differ by about 1e-12 are not covered',
                        'the sequence has at least two distinct values (the property\'s quantifier)']
    res.cov['rule'] = ('exhaustive: every sequence over a small symmetric alphabet up to a length bound; random: length 2..40, alphabets {-k..k} k in 2..40, '
                       'plateaus / intermediate points / repeated extremes / nested envelopes, each also rewritten into a forced junction configuration '
                       '(last between 0 and first, trailing / leading plateau, last passing an older reversal, zero ends, last = first); '
                       'long stretches without a turning point (own generator derived from the seed): blocks of the pool ending in a plateau of 2 and of L samples, '
                       'L in 3..130 (pairs: the two must be counted alike; half of them also at three assessment points), leading / interior plateaus, long monotone '
                       'runs in the interior and at the end, run-then-plateau, intermediate-point-then-plateau, all through the correspondence and the relation; '
                       'near-tie float inputs: level sequences from the same pool (half with the largest |level| attained at least twice) scaled by c in '
                       '{1e-3..7.3} and perturbed by -2..2 ulps per run of equal levels (modes random / growing / shrinking / late-extreme), counted '
                       'non-trivial when in the class and at least one level occurs with two different float values; '
                       'non-trivial = sequence in the junction class z and p whose second pass records at least one hysteresis '
                       '(counted distinct by sequence); sequences outside the class are compared model-vs-implementation and feed the known finding')
    common.standard_proof_stage(res, 'C04')

    res.cov.setdefault('timing_s', []).append(round(time.time() - res.t0, 1))
    # ---- cases
    seqs = corpus_cases()
    if quick:
        seqs += list(hcm.all_seqs(range(-2, 3), 4))
        nrand = 700
    elif common.NCPU >= 8:
        seqs += list(hcm.all_seqs(range(-2, 3), 6)) + list(hcm.all_seqs(range(-3, 4), 5))
        nrand = 8000
    else:       # few cores (shared machine): the exhaustive {-3..3} <= 6 sweep of the MODEL is in the bounded theorems anyway
        seqs += list(hcm.all_seqs(range(-2, 3), 5)) + list(hcm.all_seqs(range(-3, 4), 4))
        nrand = 2500
    for _ in range(nrand):
        s = hcm.random_seq(rng, 40 if rng.random() < 0.3 else 14)
        seqs.append(s)
        seqs.append(hcm.force_junction(rng, s))
        t = hcm.make_in_class(rng, s)
        if t is not None and rng.random() < 0.5:
            seqs.append(t)
    dwell_pairs, dwell_cov = dwell_cases(res, seqs, 140 if quick else (1500 if common.NCPU >= 8 else 600))
    for ref, dw, _ in dwell_pairs:
        seqs += [ref, dw]
    seqs += dwell_cov.pop('_singles')
    seen, uniq = set(), []
    for s in seqs:
        k = tuple(s)
        if k not in seen and len(set(s)) >= 2:
            seen.add(k)
            uniq.append(s)
    seqs = uniq

    res.cov.setdefault('timing_s', []).append(round(time.time() - res.t0, 1))
    # ---- D1: implementation on every case, correspondence with the model, oracle vs Coq spec
    outs = hcm.pmap(hcm._w_single, seqs)
    terms, owner, impl_exc = [], [], 0
    for i, (s, o) in enumerate(zip(seqs, outs)):
        if o[0] != 'ok':
            impl_exc += 1
            res.oblige('implementation runs on %s' % s, False, o[1])
            res.violation('detector raises on a valid load sequence', sequence=s, error=o[1])
            continue
        rows, _, _, resid = o[1]
        try:
            terms.append(hcm.c04_term(s, rows, resid) + ' && ' + hcm.spec_term(s))
        except ValueError as e:
            terms.append('false')
        owner.append(i)
    bad, log = common.coq_compare('C04', hcm.REQ, terms)
    badset = {owner[j] for j in bad}
    res.oblige('correspondence: load model = implementation (loads_min, loads_max, is_closed_hysteresis, run_index of every row) and search oracle = Coq specification on %d sequences' % len(terms),
               not bad, 'disagreeing sequences: %s\n%s' % ([seqs[owner[j]] for j in bad[:6]], log[-1200:]))
    res.cov['correspondence_disagreements'] = len(bad)

    res.cov.setdefault('timing_s', []).append(round(time.time() - res.t0, 1))
    # ---- D2a: the length of a trailing plateau (dwell) does not change what is counted (theorem dwell_insensitive for the model;
    # here on the implementation, one and three assessment points)
    dwell_stage(res, dwell_pairs, dwell_cov, dict((tuple(s), o) for s, o in zip(seqs, outs)), quick)

    res.cov.setdefault('timing_s', []).append(round(time.time() - res.t0, 1))
    # ---- D2: the property's relation on the implementation, every case
    nontriv, hist, n_viol = set(), {}, 0
    inclass = []
    order = sorted(range(len(seqs)), key=lambda i: (not hcm.in_class(seqs[i]), len(seqs[i])))   # in-class, short first
    for i in order:
        s, o = seqs[i], outs[i]
        if o[0] != 'ok':
            continue
        rows = o[1][0]
        z, p = classify(s)
        hist['z=%d p=%d' % (z, p)] = hist.get('z=%d p=%d' % (z, p), 0) + 1
        why = hcm.c04_relation(s, rows)
        if z and p:
            inclass.append(i)
            if any(r[3] == 2 for r in hcm.load_rows(rows)):
                nontriv.add(tuple(s))
        if why:
            agrees = i not in badset
            if z and p and n_viol < 3:      # a new defect: minimise the input before reporting it
                s2 = shrink(s)
                if s2 != s:
                    s, rows, agrees = s2, hcm.impl_run(s2)[0], False
                    why = hcm.c04_relation(s, rows) or why
            lr = hcm.load_rows(rows)
            new = res.violation(WHAT, sequence=s, detail=why, z=hcm.z_class(s), p=hcm.p_class(s), model_agrees=agrees,
                                observed_pass2=[r for r in lr if r[3] == 2], expected_pass2=hcm.steady_cycles(s))
            if new:
                n_viol += 1
    res.add_cases(len(seqs), nontrivial=len(nontriv))
    res.cov['junction_class_histogram'] = hist
    for s in [seqs[i] for i in inclass[:3]] + seqs[len(seqs) // 2:len(seqs) // 2 + 3]:
        res.sample({'sequence': s, 'z': hcm.z_class(s), 'p': hcm.p_class(s), 'steady_cycles': hcm.steady_cycles(s)})

    res.cov.setdefault('timing_s', []).append(round(time.time() - res.t0, 1))
    # ---- D3: refinement by non-reversal samples + stationarity of a third pass (implementation only, in the class)
    pick = [seqs[i] for i in inclass if len(seqs[i]) <= 30]
    rng.shuffle(pick)
    pick = pick[:250 if quick else (3000 if common.NCPU >= 8 else 1000)]
    pairs = [(s, t) for s in pick for t in refinements(rng, s, 1)]
    o_ref = hcm.pmap(hcm._w_single, [t for _, t in pairs])
    base = {tuple(s): o for s, o in zip(seqs, outs)}
    for (s, t), o in zip(pairs, o_ref):
        ob = base[tuple(s)]
        if o[0] != 'ok' or ob[0] != 'ok':
            continue
        a = sorted((r[0], r[1], r[2]) for r in hcm.load_rows(ob[1][0]) if r[3] == 2)
        b = sorted((r[0], r[1], r[2]) for r in hcm.load_rows(o[1][0]) if r[3] == 2)
        if a != b:
            res.violation(WHAT_REFINE, sequence=s, refined=t, observed=(a, b))
    o3 = hcm.pmap(hcm._w_single3, pick[:150 if quick else (1500 if common.NCPU >= 8 else 500)])
    t3 = []
    for s, o in zip(pick, o3):
        if o[0] != 'ok':
            continue
        lr = hcm.load_rows(o[1][0])
        a = [r[:3] for r in lr if r[3] == 2]
        b = [r[:3] for r in lr if r[3] == 3]
        if a != b:
            res.violation(WHAT_STATIONARY, sequence=s, observed=(a, b))
        t3.append(hcm.c04_term(s, o[1][0], o[1][3], passes=3))
    bad3, log3 = common.coq_compare('C04p3', hcm.REQ, t3)
    res.oblige('correspondence: three-pass runs of the model = implementation on %d sequences' % len(t3), not bad3, log3[-800:])
    res.add_cases(len(pairs) + len(t3), nontrivial=0)
    res.cov['refinement_pairs'] = len(pairs)
    res.cov['three_pass_runs'] = len(t3)

    res.cov.setdefault('timing_s', []).append(round(time.time() - res.t0, 1))
    # ---- D4: float loads whose extreme values / extents tie only up to rounding (the code's 1e-12 tolerances decide).
    # Level sequences of every junction class are scaled by c and perturbed by a few ulps per occurrence (hcm.perturb); the detector
    # must record what the integer model records for the levels (theorem tolerant_compare_is_level_compare), and the property's
    # relation is evaluated on what it recorded for the float input.
    bad_nt = near_tie_stage(res, seqs, outs, quick)

    res.cov.setdefault('timing_s', []).append(round(time.time() - res.t0, 1))
    # ---- search seeded from disagreeing cases (only when the tie broke): neighbours of the disagreeing sequences
    if badset or bad3:
        extra = []
        for i in list(badset)[:40]:
            s = seqs[i]
            for _ in range(6):
                t = hcm.make_in_class(rng, [x for x in s if rng.random() < 0.8] or s)
                if t is not None and len(set(t)) >= 2:
                    extra.append(t)
        for _ in range(400 if quick else 4000):
            t = hcm.make_in_class(rng, hcm.random_seq(rng, 12))
            if t is not None:
                extra.append(t)
        oe = hcm.pmap(hcm._w_single, extra)
        found = 0
        for s, o in zip(extra, oe):
            if o[0] != 'ok':
                continue
            why = hcm.c04_relation(s, o[1][0])
            if why and found < 5:
                found += 1
                s2 = shrink(s)
                res.violation(WHAT, sequence=s2, detail=why, z=hcm.z_class(s2), p=hcm.p_class(s2), model_agrees=False,
                              observed_pass2=[r for r in hcm.load_rows(hcm.impl_run(s2)[0]) if r[3] == 2], expected_pass2=hcm.steady_cycles(s2))
        res.add_cases(len(extra), 0)

    res.cov.setdefault('timing_s', []).append(round(time.time() - res.t0, 1))
    # ---- E: known findings
    res.replay_known(lambda e: hcm.c04_relation(e['witness']['sequence'], hcm.impl_run(e['witness']['sequence'])[0]) is not None)


def dwell_cases(res, seqs, n):
    """Inputs with long stretches without a turning point.  Pairs (reference, dwell, L): a block of the generated pool ending in a
    plateau of 2 resp. L samples (L in hcm.DWELL_LENGTHS, 3..130); singles: leading / interior plateaus, long monotone runs in the
    interior and at the end, run-then-plateau, intermediate-point-then-plateau.  The random choices come from a generator derived
    from VERIF_SEED (not res.rng itself: the streams of the older stages stay what they were)."""
    import random
    rng = random.Random('C04-dwell-%s' % res.seed)
    hand = [[3, -2, 5, -4, 6, -6], [4, -1, -4], [2, -1, 1, -2, 3, 1], [-1, 6, -3, 5, 0, -6], [1, -2, 2, -1]]
    pool = [s for s in seqs if len(s) <= 16]
    rng.shuffle(pool)
    pairs, singles, kinds, hist = [], [], {}, {}
    for b in hand + pool[:n]:
        for _ in range(2 if b in hand else 1):
            L = rng.choice(hcm.DWELL_LENGTHS)
            ref, dw = hcm.dwell_pair(b, L)
            if len(set(ref)) >= 2:
                pairs.append((ref, dw, L))
                hist[L] = hist.get(L, 0) + 1
    for b in pool[n:n + (2 * n) // 3]:
        k, s = rng.choice(hcm.dwell_variants(rng, b))
        kinds[k] = kinds.get(k, 0) + 1
        singles.append(s)
    return pairs, {'_singles': singles, 'pairs': len(pairs), 'plateau_length_histogram': dict(sorted(hist.items())), 'other_long_stretches': kinds}


def dwell_stage(res, pairs, cov, outs, quick):
    n_rev, n_viol, nontriv, failing, reported = 0, 0, set(), [], set()
    for ref, dw, L in pairs:
        o1, o2 = outs.get(tuple(ref)), outs.get(tuple(dw))
        if o1 is None or o2 is None or o1[0] != 'ok' or o2[0] != 'ok':
            continue
        rev = hcm.dwell_is_periodic_reversal(dw)
        n_rev += rev
        if rev and L >= 8 and hcm.pass2_rows(o2[1][0]):
            nontriv.add(tuple(dw))
        why = hcm.dwell_relation(o1[1][0], o2[1][0])
        if why:
            failing.append((hcm.c04_relation(ref, o1[1][0]) is not None, len(ref), ref, dw, L, why))
    # report first the pairs whose reference (plateau of 2 samples) is counted correctly (= steady-state cycles): then the failure cannot be
    # an instance of the junction findings; shortest first
    for ref_wrong, _, ref, dw, L, why in sorted(failing)[:8]:
        if n_viol >= 3:
            break
        ref, dw, L = shrink_dwell(ref, L, keep_reference_correct=not ref_wrong)
        if tuple(dw) in reported:
            continue
        reported.add(tuple(dw))
        n_viol += 1
        r1, r2 = hcm.impl_run(ref)[0], hcm.impl_run(dw)[0]
        res.violation(WHAT_DWELL, sequence=dw, reference=ref, plateau_length=L, detail=hcm.dwell_relation(r1, r2) or why,
                      observed_pass2=hcm.pass2_rows(r2), observed_pass2_reference=hcm.pass2_rows(r1), steady_cycles=hcm.steady_cycles(dw),
                      reference_is_counted_correctly=hcm.c04_relation(ref, r1) is None,
                      plateau_is_reversal_of_repeated_sequence=hcm.dwell_is_periodic_reversal(dw), failing_pairs_in_this_run=len(failing))
    # several assessment points (loads 1 : 3 : 2): the load columns of every point must not depend on the length of the dwell either
    multi = [p for p in pairs if hcm.dwell_is_periodic_reversal(p[1])][:25 if quick else 150]
    om = hcm.pmap(hcm._w_multi3, [x for ref, dw, _ in multi for x in (ref, dw)])
    n_multi = 0
    for k, (ref, dw, L) in enumerate(multi):
        a, b = om[2 * k], om[2 * k + 1]
        if a[0] != 'ok' or b[0] != 'ok':
            if (a[0] == 'ok') != (b[0] == 'ok'):
                res.violation(WHAT_DWELL, sequence=dw, reference=ref, plateau_length=L, assessment_points=3, detail='detector raises for one of the two: %s / %s' % (a[1], b[1]))
            continue
        n_multi += 1
        for j in range(3):
            why = hcm.dwell_relation(a[1][0][j], b[1][0][j])
            if why and n_viol < 5:
                n_viol += 1
                res.violation(WHAT_DWELL, sequence=dw, reference=ref, plateau_length=L, assessment_points=3, point=j, detail=why,
                              observed_pass2=hcm.pass2_rows(b[1][0][j]), observed_pass2_reference=hcm.pass2_rows(a[1][0][j]))
                break
    res.add_cases(len(pairs) + 2 * n_multi, nontrivial=len(nontriv))
    cov = dict(cov)
    cov.update({'plateau_is_reversal_of_repeated_sequence': n_rev, 'nontrivial_rule': 'plateau of >= 8 samples that is a reversal of the repeated sequence, '
                'second pass records something (distinct sequences)', 'nontrivial': len(nontriv), 'three_point_pairs': n_multi})
    res.cov['dwell_inputs'] = cov
    for ref, dw, L in pairs[5:7]:
        res.sample({'block': hcm.strip_trailing_run(dw), 'trailing_plateau_length': L, 'plateau_is_reversal': hcm.dwell_is_periodic_reversal(dw)})


def shrink_dwell(ref, L, keep_reference_correct=False):
    """Greedy minimisation of a failing dwell pair: drop samples of the block, then shorten the plateau (optionally only while the
    reference with the plateau of 2 samples is still counted correctly)."""
    def fails(b, L):
        if len(set(b)) < 2:
            return False
        r, d = hcm.dwell_pair(b, L)
        try:
            r1 = hcm.impl_run(r)[0]
            if keep_reference_correct and hcm.c04_relation(r, r1) is not None:
                return False
            return hcm.dwell_relation(r1, hcm.impl_run(d)[0]) is not None
        except Exception:
            return False
    b = hcm.strip_trailing_run(ref)
    changed = True
    while changed and len(b) > 2:
        changed = False
        for i in range(len(b)):
            t = hcm.strip_trailing_run(b[:i] + b[i + 1:])
            if fails(t, L):
                b, changed = t, True
                break
    while L > 3 and fails(b, L - 1):
        L -= 1
    r, d = hcm.dwell_pair(b, L)
    return r, d, L


def near_tie_cases(rng, seqs, n):
    """(levels, floats, scale, mode): level sequences from the generated pool -- half of them with the largest |level| attained at
    least twice (near-ties of the maximum), the rest arbitrary (near-ties of extents / inner reversals) -- scaled and perturbed."""
    multi = [s for s in seqs if len(s) <= 40 and sum(1 for x in s if abs(x) == max(abs(y) for y in s)) >= 2]
    rest = [s for s in seqs if len(s) <= 40]
    rng.shuffle(multi)
    rng.shuffle(rest)
    pool = multi[:n // 2] + rest[:n - min(len(multi), n // 2)]
    cases, skipped, seen = [], 0, set()
    for s in pool:
        for _ in range(2):
            c = rng.choice(hcm.NT_SCALES)
            if max(abs(x) for x in s) * c > 300:
                c = 0.1
            f = hcm.perturb(rng, s, c, rng.choice(hcm.NT_MODES))
            if f is None:
                skipped += 1
                continue
            if tuple(f) in seen:
                continue
            seen.add(tuple(f))
            cases.append((s, f, c))
            if rng.random() < 0.6:
                break
    return cases, skipped


def near_tie_stage(res, seqs, outs, quick):
    rng = res.rng
    cases = [(s, [float(x) for x in f], c) for s, f, c in NT_CORPUS if hcm.nt_valid(s, f) and hcm.nt_budget(s, f, c) is not None]
    gen, skipped = near_tie_cases(rng, seqs, 500 if quick else (5000 if common.NCPU >= 8 else 1800))
    cases += gen
    o_nt = hcm.pmap(hcm._w_scaled, [(f, c) for _, f, c in cases])
    terms, owner, cont_bad, n_near, distinct = [], [], [], 0, set()
    for i, ((s, f, c), o) in enumerate(zip(cases, o_nt)):
        if len(set(f)) > len(set(s)):
            n_near += 1
        if hcm.exact_steady_levels(f, c) != hcm.steady_cycles(s):
            cont_bad.append((s, f, c))
        if o[0] != 'ok':
            res.oblige('implementation runs on float loads %s' % f, False, o[1])
            res.violation('detector raises on a valid load sequence', sequence=f, levels=s, scale=c, error=o[1])
            continue
        try:
            terms.append(hcm.c04_term(s, hcm.snap_rows(o[1][0], c), None))
        except ValueError:
            terms.append('false')
        owner.append(i)
    res.oblige('search oracle on float loads: the steady-state cycles of the perturbed sequence (exact rational arithmetic) are those of its levels (%d sequences)' % len(cases),
               not cont_bad, cont_bad[:3])
    bad, log = common.coq_compare('C04nt', hcm.REQ, terms)
    badset = {owner[j] for j in bad}
    res.oblige('correspondence: load model on the levels = implementation on float loads with rounding-level near-ties (levels of loads_min, loads_max; is_closed_hysteresis, run_index of every row) on %d sequences' % len(terms),
               not bad, 'disagreeing inputs: %s\n%s' % ([cases[owner[j]][1:] for j in bad[:4]], log[-1200:]))
    n_viol = 0
    order = sorted(owner, key=lambda i: (not hcm.in_class(cases[i][0]), len(cases[i][0])))
    for i in order:
        s, f, c = cases[i]
        rows = o_nt[i][1][0]
        why = hcm.c04_relation_nt(s, f, c, rows)
        if hcm.in_class(s) and len(set(f)) > len(set(s)):
            distinct.add(tuple(f))
        if why:
            agrees = i not in badset
            if hcm.in_class(s) and n_viol < 3:
                s2, f2 = shrink_nt(s, f, c)
                if s2 != s:
                    s, f, agrees = s2, f2, False
                    rows = hcm.impl_run_scaled(f, c)[0]
                    why = hcm.c04_relation_nt(s, f, c, rows) or why
            new = res.violation(WHAT, sequence=f, levels=s, scale=c, detail=why, z=hcm.z_class(s), p=hcm.p_class(s), model_agrees=agrees,
                                observed_pass2=[(r['loads_min'], r['loads_max'], r['is_closed_hysteresis']) for r in rows if r['run_index'] == 2],
                                expected_pass2_levels=hcm.steady_cycles(s))
            if new:
                n_viol += 1
    n_extra = 0
    if badset and n_viol == 0:
        # the tie broke on float inputs but none of them violates the property: search the neighbourhood of the disagreeing inputs
        # (sub-sequences forced into the class, other scales / perturbation modes)
        extra = []
        for i in list(badset)[:40]:
            s = cases[i][0]
            for _ in range(8):
                t = hcm.make_in_class(rng, [x for x in s if rng.random() < 0.8] or s)
                if t is None or len(set(t)) < 2:
                    continue
                c = rng.choice([cases[i][2], rng.choice(hcm.NT_SCALES)])
                f = hcm.perturb(rng, t, c if max(abs(x) for x in t) * c <= 300 else 0.1, rng.choice(hcm.NT_MODES))
                if f is not None:
                    extra.append((t, f, c if max(abs(x) for x in t) * c <= 300 else 0.1))
        n_extra = len(extra)
        for (s, f, c), o in zip(extra, hcm.pmap(hcm._w_scaled, [(f, c) for _, f, c in extra])):
            if o[0] != 'ok' or n_viol >= 3:
                continue
            why = hcm.c04_relation_nt(s, f, c, o[1][0])
            if why:
                s, f = shrink_nt(s, f, c)
                rows = hcm.impl_run_scaled(f, c)[0]
                if res.violation(WHAT, sequence=f, levels=s, scale=c, detail=hcm.c04_relation_nt(s, f, c, rows) or why, z=hcm.z_class(s), p=hcm.p_class(s),
                                 model_agrees=False, observed_pass2=[(r['loads_min'], r['loads_max'], r['is_closed_hysteresis']) for r in rows if r['run_index'] == 2],
                                 expected_pass2_levels=hcm.steady_cycles(s)):
                    n_viol += 1
    res.add_cases(len(cases) + n_extra, nontrivial=len(distinct))
    res.cov['near_tie_float_inputs'] = {'cases': len(cases), 'with_rounding_level_ties': n_near, 'in_class_distinct': len(distinct),
                                       'scale_budget_skips': skipped, 'correspondence_disagreements': len(bad)}
    for s, f, c in cases[len(NT_CORPUS):len(NT_CORPUS) + 2]:
        res.sample({'levels': s, 'float_loads': f, 'scale': c})
    return badset


def shrink_nt(s, f, c):
    """Greedy minimisation of an in-class failing float input: drop samples (levels and loads together) while the rest stays an
    admissible perturbation, in the class, and fails."""
    def fails(t, g):
        if len(set(t)) < 2 or not hcm.in_class(t) or not hcm.nt_valid(t, g) or hcm.nt_budget(t, g, c) is None:
            return False
        try:
            return hcm.c04_relation_nt(t, g, c, hcm.impl_run_scaled(g, c)[0]) is not None
        except Exception:
            return False
    cs, cf = list(s), list(f)
    changed = True
    while changed and len(cs) > 2:
        changed = False
        for i in range(len(cs)):
            t, g = cs[:i] + cs[i + 1:], cf[:i] + cf[i + 1:]
            if fails(t, g):
                cs, cf, changed = t, g, True
                break
    return cs, cf


def shrink(s):
    """Greedy minimisation of an in-class failing sequence: drop samples / halve values while it stays in the class and fails."""
    def fails(t):
        if len(set(t)) < 2 or not hcm.in_class(t):
            return False
        try:
            return hcm.c04_relation(t, hcm.impl_run(t)[0]) is not None
        except Exception:
            return False
    cur = list(s)
    changed = True
    while changed and len(cur) > 2:
        changed = False
        for i in range(len(cur)):
            t = cur[:i] + cur[i + 1:]
            if fails(t):
                cur, changed = t, True
                break
    return cur


def replay(res, rp):
    register_classes(res)
    v = rp.get('violation', {})
    if 'sequence' in v and 'scale' in v:          # float loads with rounding-level near-ties (stage D4)
        f, s, c = [float(x) for x in v['sequence']], [int(x) for x in v['levels']], float(v['scale'])
        try:
            rows = hcm.impl_run_scaled(f, c)[0]
            why = hcm.c04_relation_nt(s, f, c, rows)
            print('replay: pass-2 rows', [(r['loads_min'], r['loads_max'], r['is_closed_hysteresis']) for r in rows if r['run_index'] == 2],
                  'steady cycles (levels, scale %r)' % c, hcm.steady_cycles(s))
        except Exception as e:
            why = 'detector raises: %r' % e
        print('replay:', f, '->', why)
        new = True
        if why:
            new = res.violation(v.get('what', WHAT), sequence=f, levels=s, scale=c, detail=why, z=hcm.z_class(s), p=hcm.p_class(s), model_agrees=v.get('model_agrees'))
            if not new:
                res.known.append('replayed input reproduces a known finding (%s)' % why)
        res.add_cases(1, 0)
        res.oblige('replayed input satisfies the property', not why or not new)
    elif 'sequence' in v:
        s = [int(x) for x in v['sequence']]
        if 'reference' in v:
            ref = [int(x) for x in v['reference']]
            if v.get('assessment_points'):
                a, b = hcm.impl_run_multi(ref, [1, 3, 2])[0], hcm.impl_run_multi(s, [1, 3, 2])[0]
                why = next((w for w in (hcm.dwell_relation(x, y) for x, y in zip(a, b)) if w), None)
            else:
                r1, r2 = hcm.impl_run(ref)[0], hcm.impl_run(s)[0]
                why = hcm.dwell_relation(r1, r2)
                print('replay: pass-2 rows with a plateau of 2 samples', hcm.pass2_rows(r1), 'with the long plateau', hcm.pass2_rows(r2), 'steady cycles', hcm.steady_cycles(s))
        elif 'refined' in v:
            t = [int(x) for x in v['refined']]
            a = sorted((r[0], r[1], r[2]) for r in hcm.load_rows(hcm.impl_run(s)[0]) if r[3] == 2)
            b = sorted((r[0], r[1], r[2]) for r in hcm.load_rows(hcm.impl_run(t)[0]) if r[3] == 2)
            why = None if a == b else WHAT_REFINE
        elif v.get('what') == WHAT_STATIONARY:
            lr = hcm.load_rows(hcm.impl_run(s, None, 3)[0])
            why = None if [r[:3] for r in lr if r[3] == 2] == [r[:3] for r in lr if r[3] == 3] else WHAT_STATIONARY
        else:
            try:
                rows = hcm.impl_run(s)[0]
                why = hcm.c04_relation(s, rows)
                print('replay: pass-2 rows', [r for r in hcm.load_rows(rows) if r[3] == 2], 'steady cycles', hcm.steady_cycles(s))
            except Exception as e:
                why = 'detector raises: %r' % e
        print('replay:', s, '->', why)
        new = True
        if why:
            new = res.violation(v.get('what', WHAT), sequence=s, detail=why, z=hcm.z_class(s), p=hcm.p_class(s), model_agrees=v.get('model_agrees'))
            if not new:
                res.known.append('replayed input reproduces a known finding (%s)' % why)
        res.add_cases(1, 0)
        res.oblige('replayed input satisfies the property', not why or not new)
    else:
        run(res)
    return res.finish()
