"""C17 -- equivalent stresses (equistress.py, df.equistress accessor).

Proof part   : coq/props/C17.v over (a) py2coq-generated mises / _sign_trace / signed_mises_trace (scalar and array code path),
               (b) a hand-written mirror of the eigenvalue-based functions over the triple returned by np.linalg.eigvalsh,
               whose contract (ascending, elementary symmetric functions = invariants I1 I2 I3) is a hypothesis, never an axiom.
Tie          : interval / lra certificates per sampled tensor: generated model = implementation output, hand model applied to numpy's
               eigenvalues = implementation output, eigvalsh contract holds for numpy's eigenvalues.
Every run    : the property's own relations on the implementation (rotation by exactly orthogonal matrices from integer quaternions,
               positive scaling, definitions over the eigenvalues, Mises <= Tresca <= 2/sqrt3 Mises, sign conventions incl. zero indicator,
               accessor vs plain function vs scalar call row by row, integer-typed input) -- these double as the failing-input search."""
import json
import math
import os
from fractions import Fraction

import numpy as np

import cert
import common
import gen_specs

MANIFEST = dict(
    text='Theorems (props/C17.v, 23): von Mises (py2coq-generated from equistress.py on every run, scalar and array code path) squared = I1^2 - 3 I2 '
         'and = the principal-difference form; I1, I2, I3 invariant under every orthogonal change of coordinates Q S Q^T (explicit 3x3 components, ring), '
         'hence Mises rotation invariant; two ascending triples with the same elementary symmetric functions are equal, hence (eigvalsh as a contract: '
         'ascending roots of the characteristic polynomial) principal stresses, Tresca, max / min / absolute-max principal and all signed variants are '
         'rotation invariant and positively homogeneous; Tresca = max - min; absolute maximum = eigenvalue of largest magnitude with its sign; '
         'Mises <= Tresca <= 2/sqrt3 Mises (both bounds attained); signed variants = +/- the unsigned one with sign +1 for an indicator >= 0 (zero included). '
         'Per-run kernel-checked certificates tie the generated model, the hand-written eigenvalue model and the eigvalsh contract to the implementation; '
         'accessor = plain function = scalar call row by row and the float-level relations are checked on the implementation on every run.',
    note=common.TB_NOTE + 'py2coq translator and its whitelist (GenEquistress); the hand-written mirror of tresca / *_principal / _sign_abs_max_principal / signed '
                          'variants over the eigenvalue triple (tied by certificates); np.linalg.eigvalsh enters only through the contract is_eig, checked per sample; '
                          'CoqInterval and lra for the certificates; float rounding, overflow / underflow of squares (|stress| outside 1e-150..1e150) and the sign of an '
                          'indicator that is zero only up to rounding are outside the theorems; pandas plumbing of the accessor is covered by the row-by-row relation only.',
    technique='Coq proof over py2coq-generated + hand-written real-valued model, eigen-solver as contract, CoqInterval/lra certificates',
    design='6/C17')

GEN = ['GenEquistress']
REQ = ['From PLgen Require Import GenEquistress.', 'From PL Require Import Stress.C17 Stress.C17Cert.']
UNFOLD = ['sorted3']        # everything else is evaluated by c17_prep (Stress/C17Cert.v) through the proved characterisations
PRE_TAC = 'c17_prep;'
EXTRA_TAC = 'try (solve [lra]);'

FUNCS = ['tresca', 'signed_tresca_trace', 'signed_tresca_abs_max_principal', 'abs_max_principal', 'max_principal', 'min_principal',
         'mises', 'signed_mises_trace', 'signed_mises_abs_max_principal']
MISES_FAMILY = {'mises', 'signed_mises_trace', 'signed_mises_abs_max_principal'}
TRACE_SIGNED = {'signed_tresca_trace', 'signed_mises_trace'}
AMP_SIGNED = {'signed_tresca_abs_max_principal', 'signed_mises_abs_max_principal', 'abs_max_principal'}
COLS = ['S11', 'S22', 'S33', 'S12', 'S13', 'S23']
EPS = 2.0 ** -52

W_INT = 'integer-typed input gives a different result than the same values as floats'
W_NAN = 'an equivalent stress is NaN for a finite stress tensor'


# ----------------------------------------------------------------------------- exact helpers

def fr(t):
    return [Fraction(float(x)) for x in t]


def invariants(t):
    a, b, c, d, e, f = fr(t)
    i1 = a + b + c
    i2 = a * b + a * c + b * c - d * d - e * e - f * f
    i3 = a * b * c + 2 * d * e * f - a * f * f - b * e * e - c * d * d
    return i1, i2, i3


def fnorm(t):
    a, b, c, d, e, f = [float(x) for x in t]
    return math.sqrt(a * a + b * b + c * c + 2 * (d * d + e * e + f * f))


def quat_matrix(q):
    """Exactly orthogonal rational matrix (proper rotation) of an integer quaternion."""
    a, b, c, d = [Fraction(int(x)) for x in q]
    n = a * a + b * b + c * c + d * d
    return [[(a * a + b * b - c * c - d * d) / n, 2 * (b * c - a * d) / n, 2 * (b * d + a * c) / n],
            [2 * (b * c + a * d) / n, (a * a - b * b + c * c - d * d) / n, 2 * (c * d - a * b) / n],
            [2 * (b * d - a * c) / n, 2 * (c * d + a * b) / n, (a * a - b * b - c * c + d * d) / n]]


def rotate_exact(t, q):
    """Q S Q^T in exact rational arithmetic, each component rounded once to the nearest double."""
    a, b, c, d, e, f = fr(t)
    S = [[a, d, e], [d, b, f], [e, f, c]]
    Q = quat_matrix(q)
    QS = [[sum(Q[i][k] * S[k][j] for k in range(3)) for j in range(3)] for i in range(3)]
    B = [[sum(QS[i][k] * Q[j][k] for k in range(3)) for j in range(3)] for i in range(3)]
    return tuple(float(x) for x in (B[0][0], B[1][1], B[2][2], B[0][1], B[0][2], B[1][2]))


def is_signed_permutation(q):
    return all(x in (0, 1, -1) for row in quat_matrix(q) for x in row)


def tol_mises(norm, value):
    """Float error bound of sqrt(radicand): the radicand carries an absolute error <= 64 eps norm^2."""
    if norm == 0:
        return 1e-300
    delta = 64 * EPS * norm * norm
    root = math.sqrt(delta)
    v = abs(value)
    return 1e-9 * v + (delta / v if v >= root else root)


def tol_eig(norm, value=0.0):
    return 1e-10 * norm + 1e-12 * abs(value) + 1e-300


def tol_of(fn, norm, value):
    return tol_mises(norm, value) if fn in MISES_FAMILY else tol_eig(norm, value)


# ----------------------------------------------------------------------------- implementation access

class Impl:
    def __init__(self):
        import pandas as pd
        import pylife.stress.equistress as E
        self.E, self.pd = E, pd

    def scalar(self, t):
        t = [float(x) for x in t]
        out = {fn: float(getattr(self.E, fn)(*t)) for fn in FUNCS}
        out['principals'] = [float(x) for x in self.E.principals(*t)]
        return out

    def signs(self, t):
        t = [float(x) for x in t]
        return float(self.E._sign_trace(*t[:3])), float(self.E._sign_abs_max_principal(*t))

    def columns(self, T):
        A = np.array(T, dtype=float).reshape(-1, 6)
        cols = [A[:, i].copy() for i in range(6)]
        out = {fn: np.asarray(getattr(self.E, fn)(*cols), dtype=float) for fn in FUNCS}
        out['principals'] = np.asarray(self.E.principals(*cols), dtype=float)
        return out

    def accessor(self, T, index):
        df = self.pd.DataFrame(np.array(T, dtype=float).reshape(-1, 6), columns=COLS, index=index)
        before = df.copy()
        out = {fn: getattr(df.equistress, fn)() for fn in FUNCS}
        out['principals'] = df.equistress.principals()
        return df, before, out


# ----------------------------------------------------------------------------- generators (res.rng only)

def dyadic(rng, lim=64, unit=8.0):
    return rng.randint(-lim, lim) / unit


def gen_tensor(rng, kind):
    """Returns (tensor, exact) -- exact: components are small dyadic numbers (all float sums of them are exact)."""
    mag = 10.0 ** rng.uniform(-3, 4)
    if kind == 'general':
        return tuple(rng.uniform(-1, 1) * mag for _ in range(6)), False
    if kind == 'decimal':            # non-dyadic decimals like the ones in FEM result files
        return tuple(round(rng.uniform(-500, 500), rng.choice([1, 2, 3])) for _ in range(6)), False
    if kind == 'near_hydrostatic':
        p = rng.uniform(-1, 1) * mag
        return tuple([p * (1 + rng.uniform(-1, 1) * 1e-7) for _ in range(3)] + [p * rng.uniform(-1, 1) * 1e-7 for _ in range(3)]), False
    if kind == 'plane':              # plane stress
        v = [rng.uniform(-1, 1) * mag for _ in range(3)]
        return (v[0], v[1], 0.0, v[2], 0.0, 0.0), False
    if kind == 'diag':
        return (dyadic(rng), dyadic(rng), dyadic(rng), 0.0, 0.0, 0.0), True
    if kind == 'uniaxial':
        v = [0.0] * 6
        v[rng.randrange(3)] = dyadic(rng) or 1.0
        return tuple(v), True
    if kind == 'hydrostatic':
        p = dyadic(rng) or -2.5
        return (p, p, p, 0.0, 0.0, 0.0), True
    if kind == 'pure_shear_diag':    # eigenvalues (-t, 0, t): zero indicator of the absolute-maximum sign, zero trace
        t = abs(dyadic(rng)) or 1.0
        v = [t, -t, 0.0]
        rng.shuffle(v)
        return tuple(v) + (0.0, 0.0, 0.0), True
    if kind == 'pure_shear':
        v = [0.0] * 6
        v[3 + rng.randrange(3)] = dyadic(rng) or 1.0
        return tuple(v), True
    if kind == 'repeated':           # two equal eigenvalues
        a, b = dyadic(rng), dyadic(rng)
        v = [a, a, b]
        rng.shuffle(v)
        return tuple(v) + (0.0, 0.0, 0.0), True
    if kind == 'zero':
        return (0.0,) * 6, True
    if kind == 'zero_trace':         # exactly zero trace with shear
        a, b = dyadic(rng), dyadic(rng)
        return (a, b, -(a + b), dyadic(rng), dyadic(rng), dyadic(rng)), True
    if kind == 'dyadic':
        return tuple(dyadic(rng) for _ in range(6)), True
    if kind == 'near_tie_diag':      # largest and smallest eigenvalue tie in magnitude up to t*2^-k (exactly representable)
        t = abs(dyadic(rng)) or 1.0
        d = t * 2.0 ** -rng.randint(8, 44) * rng.choice([1, -1])
        v = [t, -(t + d), rng.choice([0.0, t / 2, -t / 4])]
        rng.shuffle(v)
        return tuple(v) + (0.0, 0.0, 0.0), True
    if kind == 'near_zero_trace':    # trace = +/- 2^-k exactly, with shear
        a, b = dyadic(rng), dyadic(rng)
        d = 2.0 ** -rng.randint(8, 44) * rng.choice([1, -1])
        return (a, b, -(a + b) + d, dyadic(rng), dyadic(rng), dyadic(rng)), True
    if kind == 'neg_zero':           # zero entries held as IEEE -0.0 (a unit load case times a negative factor): a trace of -0.0 is a zero indicator
        b, _ = gen_tensor(rng, rng.choice(['pure_shear', 'pure_shear', 'zero', 'uniaxial', 'pure_shear_diag']))
        return tuple(-x for x in b), True
    raise ValueError(kind)


KINDS = ['general', 'general', 'general', 'decimal', 'decimal', 'near_hydrostatic', 'plane', 'diag', 'uniaxial', 'hydrostatic',
         'pure_shear_diag', 'pure_shear', 'repeated', 'zero', 'zero_trace', 'dyadic', 'near_tie_diag', 'near_zero_trace', 'neg_zero']

PERM_QUATS = [(1, 0, 0, 0), (1, 1, 0, 0), (1, 0, 1, 0), (1, 0, 0, 1), (0, 1, 0, 0), (0, 0, 1, 0), (0, 0, 0, 1), (1, 1, 1, 1), (1, -1, 1, 1),
              (0, 1, 1, 0), (0, 1, 0, 1), (0, 0, 1, 1), (1, -1, 0, 0), (1, 1, -1, 1), (0, 1, -1, 0)]


def gen_quat(rng, exact):
    if exact:
        return rng.choice(PERM_QUATS)
    while True:
        q = tuple(rng.randint(-5, 5) for _ in range(4))
        if any(q):
            return q


def corpus_tensors():
    out = []
    d = os.path.join(common.CORPUS, 'C17')
    if os.path.isdir(d):
        for f in sorted(os.listdir(d)):
            if f.endswith('.json'):
                for c in json.load(open(os.path.join(d, f))).get('tensors', []):
                    out.append((tuple(float(x) for x in c['t']), bool(c.get('exact', False))))
    return out


# ----------------------------------------------------------------------------- relations on the implementation

class Ctx:
    def __init__(self, res, impl):
        self.res, self.impl = res, impl
        self.n = {'kept_accessor_frames': 0, 'definitions': 0, 'rotation': 0, 'scaling': 0, 'columns_rows': 0, 'integer': 0,
                  'sign_checks_skipped_near_zero_indicator': 0, 'raised': 0}
        self.nontrivial = set()
        self.nan_seen = set()

    def bad(self, what, **kw):
        return self.res.violation(what, **kw)

    def scalar(self, t):
        """Scalar call of every function; a NaN result for a finite tensor is reported once per tensor (and the comparisons
        that involve this value are then skipped: its cause is this report, not a second defect)."""
        t = tuple(float(x) for x in t)
        o = self.impl.scalar(t)
        nans = [fn for fn in FUNCS if o[fn] != o[fn]] + (['principals'] if any(x != x for x in o['principals']) else [])
        if nans and t not in self.nan_seen and all(math.isfinite(x) for x in t):
            self.nan_seen.add(t)
            i1, i2, _ = invariants(t)
            self.bad(W_NAN, relation='nan', functions=nans, tensor=list(t), exact_mises=math.sqrt(max(float(i1 * i1 - 3 * i2), 0.0)))
        return o


def diag_exact(t, exact):
    return exact and t[3] == 0 and t[4] == 0 and t[5] == 0


def rel_definitions(cx, t, exact, out=None):
    """One tensor, scalar call: principal stresses are the eigenvalues; every function equals its definition over them;
    Mises <= Tresca <= 2/sqrt3 Mises; signed variants = +/- unsigned with the documented sign."""
    t = tuple(float(x) for x in t)
    o = out or cx.scalar(t)
    cx.n['definitions'] += 1
    isnan = lambda *fns: any(o[f] != o[f] for f in fns)
    norm = fnorm(t)
    w = o['principals']
    W = [Fraction(x) for x in w]
    i1, i2, i3 = invariants(t)
    base = dict(relation='definitions', tensor=list(t), exact=exact)
    # eigvalsh contract = "principals are the eigenvalues of the tensor"
    c1 = abs(float(W[0] + W[1] + W[2] - i1)) <= 1e-12 * norm
    c2 = abs(float(W[0] * W[1] + W[0] * W[2] + W[1] * W[2] - i2)) <= 1e-11 * norm ** 2
    c3 = abs(float(W[0] * W[1] * W[2] - i3)) <= 1e-11 * norm ** 3
    if not (w[0] <= w[1] <= w[2]) or not (c1 and c2 and c3):
        cx.bad('principals are not the ascending eigenvalues of the stress tensor', principals=w,
               invariants=[float(i1), float(i2), float(i3)], **base)
    te = tol_eig(norm)
    exp = {'tresca': w[2] - w[0], 'max_principal': w[2], 'min_principal': w[0]}
    ind_amp = w[2] + w[0]
    exp['abs_max_principal'] = w[2] if ind_amp >= 0 else w[0]
    for fn, e in exp.items():
        if isnan(fn):
            continue
        if fn == 'abs_max_principal' and abs(ind_amp) <= 1e-9 * norm and not diag_exact(t, exact):
            ok = min(abs(o[fn] - w[2]), abs(o[fn] - w[0])) <= te      # a tie up to rounding: either candidate
        else:
            ok = abs(o[fn] - e) <= te
        if not ok:
            cx.bad('%s differs from its definition over the principal stresses' % fn, function=fn, observed=o[fn], expected=e,
                   principals=w, **base)
    # Mises: from the components (exact radicand) and from the principal differences
    rad = i1 * i1 - 3 * i2
    m_exact = math.sqrt(float(rad)) if rad > 0 else 0.0
    tm = tol_mises(norm, m_exact)
    if not isnan('mises') and not abs(o['mises'] - m_exact) <= tm:
        cx.bad('mises differs from sqrt(I1^2 - 3 I2)', function='mises', observed=o['mises'], expected=m_exact, **base)
    m_pr = math.sqrt(((w[0] - w[1]) ** 2 + (w[1] - w[2]) ** 2 + (w[2] - w[0]) ** 2) / 2)
    if not isnan('mises') and not abs(o['mises'] - m_pr) <= tm + 1e-7 * norm:
        cx.bad('mises differs from the principal-difference form', function='mises', observed=o['mises'], expected=m_pr, principals=w, **base)
    # Mises <= Tresca <= 2/sqrt3 Mises
    slack = tm + te
    if not isnan('mises', 'tresca') and not (o['mises'] <= o['tresca'] + slack and o['tresca'] <= 2 / math.sqrt(3) * o['mises'] + 2 * slack):
        cx.bad('Mises <= Tresca <= 2/sqrt(3) Mises is violated', mises=o['mises'], tresca=o['tresca'], **base)
    # signed variants
    near_tr = not exact and (i1 != 0 and abs(float(i1)) <= 1e-12 * norm)
    near_amp = abs(ind_amp) <= 1e-9 * norm and not diag_exact(t, exact)
    for fn, un, ind, near in (('signed_tresca_trace', 'tresca', i1, near_tr), ('signed_mises_trace', 'mises', i1, near_tr),
                              ('signed_tresca_abs_max_principal', 'tresca', ind_amp, near_amp),
                              ('signed_mises_abs_max_principal', 'mises', ind_amp, near_amp)):
        if isnan(fn, un):
            continue
        if not abs(abs(o[fn]) - o[un]) <= 1e-12 * abs(o[un]):
            cx.bad('magnitude of %s differs from %s' % (fn, un), function=fn, observed=o[fn], unsigned=o[un], **base)
        if near:
            cx.n['sign_checks_skipped_near_zero_indicator'] += 1
            continue
        sg = 1.0 if ind >= 0 else -1.0
        if o[un] != 0 and not (o[fn] * sg > 0):
            cx.bad('%s has the wrong sign (documented: sign of the indicator, +1 for a zero indicator)' % fn, function=fn,
                   observed=o[fn], unsigned=o[un], indicator=float(ind), **base)
    if not near_tr and not near_amp:
        st, sa = cx.impl.signs(t)
        if st != (1.0 if i1 >= 0 else -1.0) or sa != (1.0 if ind_amp >= 0 else -1.0):
            cx.bad('sign function is not +1 / -1 with +1 for a zero indicator', sign_trace=st, sign_abs_max_principal=sa,
                   trace=float(i1), max_plus_min_principal=ind_amp, **base)
    if (t[3] or t[4] or t[5]) and min(w[1] - w[0], w[2] - w[1]) > 1e-6 * norm:
        cx.nontrivial.add(t)
    return o


def rel_transform(cx, tA, tB, c, relation, exact, extra):
    """f(B) = c f(A) for B = the rotated (c = 1) or positively scaled tensor."""
    oA, oB = cx.scalar(tA), cx.scalar(tB)
    cx.n[relation] += 1
    nB = fnorm(tB)
    i1 = invariants(tA)[0]
    wA, wB = oA['principals'], oB['principals']
    near_tr = not exact and abs(float(i1)) <= 1e-9 * fnorm(tA)
    near_amp = (abs(wA[2] + wA[0]) <= 1e-9 * fnorm(tA) or abs(wB[2] + wB[0]) <= 1e-9 * nB) and not (diag_exact(tA, exact) and diag_exact(tB, exact))
    base = dict(relation=relation, tensor=list(tA), transformed=list(tB), exact=exact)
    base.update(extra)
    for k in range(3):
        if not abs(wB[k] - c * wA[k]) <= tol_eig(nB, wB[k]):
            cx.bad('principal stresses change under %s' % relation, function='principals', observed=wB, original=wA, **base)
            break
    for fn in FUNCS:
        if oA[fn] != oA[fn] or oB[fn] != oB[fn]:
            continue
        if (fn in TRACE_SIGNED and near_tr) or (fn in AMP_SIGNED and near_amp):
            cx.n['sign_checks_skipped_near_zero_indicator'] += 1
            if abs(abs(oB[fn]) - c * abs(oA[fn])) <= tol_of(fn, nB, oB[fn]) or fn == 'abs_max_principal':
                continue
        if not abs(oB[fn] - c * oA[fn]) <= tol_of(fn, nB, oB[fn]):
            cx.bad('%s is not invariant under %s' % (fn, relation) if c == 1 else '%s does not scale with the positive factor' % fn,
                   function=fn, observed=oB[fn], expected=c * oA[fn], **base)


def same(a, b, tol):
    """|a - b| <= tol element-wise; NaN equals NaN (a NaN itself is reported by Ctx.scalar)."""
    a, b = np.asarray(a, dtype=float), np.asarray(b, dtype=float)
    na, nb = np.isnan(a), np.isnan(b)
    return bool(np.all(na == nb) and np.all((np.abs(a - b) <= tol) | na))


def make_index(pd, kind, n, rng):
    if kind == 'range':
        return pd.RangeIndex(n)
    if kind == 'shuffled':
        p = list(range(10, 10 + n))
        rng.shuffle(p)
        return pd.Index(p, name='element_id')
    if kind == 'strings':
        return pd.Index(['n%03d' % (7 * i % 1000) for i in range(n)], name='node')
    if kind == 'duplicates':
        return pd.Index([i // 2 for i in range(n)])
    if kind == 'multi':
        return pd.MultiIndex.from_arrays([[i // 3 for i in range(n)], [i % 3 for i in range(n)]], names=['element_id', 'node_id'])
    raise ValueError(kind)


INDEX_KINDS = ['range', 'shuffled', 'strings', 'duplicates', 'multi']


def rel_columns(cx, T, index_kind, seed):
    """accessor == plain function on the columns == scalar call, row by row; index kept; frame unmodified."""
    import random
    pd = cx.impl.pd
    T = [tuple(float(x) for x in t) for t in T]
    n = len(T)
    index = make_index(pd, index_kind, n, random.Random(seed))
    base = dict(relation='columns', tensors=[list(t) for t in T], index_kind=index_kind, index_seed=seed)
    try:
        df, before, acc = cx.impl.accessor(T, index)
        col = cx.impl.columns(T)
    except Exception as e:
        cx.bad('accessor / column call raises on a valid stress frame', error=repr(e), **base)
        return
    if not df.equals(before):
        cx.bad('accessor modified the DataFrame it was called on', **base)
    rows = [cx.scalar(t) for t in T]
    cx.n['columns_rows'] += n
    for fn in FUNCS + ['principals']:
        a = acc[fn]
        if not a.index.equals(df.index):
            cx.bad('accessor result does not carry the index of the frame', function=fn, observed_index=[str(x) for x in a.index[:6]], **base)
            continue
        av = np.asarray(a.to_numpy(), dtype=float)
        if fn == 'principals' and list(a.columns) != ['min_principal', 'med_principal', 'max_principal']:
            cx.bad('accessor principals() columns are not min/med/max_principal', function=fn, columns=list(a.columns), **base)
        cv = col[fn]
        if av.shape != cv.shape:
            cx.bad('accessor and plain function return different shapes', function=fn, accessor_shape=list(av.shape), plain_shape=list(cv.shape), **base)
            continue
        for i in range(n):
            nrm = fnorm(T[i])
            sv = np.asarray(rows[i][fn], dtype=float)
            tl = tol_of(fn, nrm, float(np.max(np.abs(sv))) if sv.size else 0.0) if fn in MISES_FAMILY else 1e-12 * nrm + 1e-300
            if not same(av[i], cv[i], tl):
                cx.bad('accessor and plain function differ in a row', function=fn, row=i, accessor=np.asarray(av[i]).tolist(),
                       plain=np.asarray(cv[i]).tolist(), **base)
                break
            if not same(cv[i], sv, tl):
                # ties up to rounding may pick the other candidate in the two LAPACK calls: only for near-zero indicators
                w = rows[i]['principals']
                if fn in AMP_SIGNED and abs(w[0] + w[2]) <= 1e-9 * nrm and not diag_exact(T[i], True):
                    cx.n['sign_checks_skipped_near_zero_indicator'] += 1
                    continue
                cx.bad('column input and scalar input differ in a row', function=fn, row=i, column=np.asarray(cv[i]).tolist(),
                       scalar=sv.tolist(), **base)
                break

    # A kept accessor object after an in-place update of its frame: whatever it reports must again be ONE consistent set of numbers --
    # those of the updated frame (the accessor references the frame) or those of the frame at creation (a snapshot); a mixture
    # (some quantities cached, others recomputed) makes the accessor disagree with the plain functions for every frame content.
    try:
        eq = df.equistress
        first = {fn: np.asarray(getattr(eq, fn)().to_numpy(), dtype=float) for fn in FUNCS}
        first['principals'] = np.asarray(eq.principals().to_numpy(), dtype=float)
        T2 = [tuple(-2.5 * x for x in t[:3]) + tuple(3.5 * x for x in t[3:]) for t in T]
        df.iloc[:, :] = np.array(T2, dtype=float).reshape(-1, 6)
        again = {fn: np.asarray(getattr(eq, fn)().to_numpy(), dtype=float) for fn in FUNCS}
        again['principals'] = np.asarray(eq.principals().to_numpy(), dtype=float)
        col2 = cx.impl.columns(T2)
    except Exception as e:
        cx.bad('kept accessor raises after an in-place update of the frame', error=repr(e), **base)
        return
    cx.n['kept_accessor_frames'] += 1

    def agree(x, y):
        return x.shape == y.shape and all(same(x[i], y[i], 1e-9 * (fnorm(T[i]) * 3.5) + 1e-300) for i in range(n))
    new_ok = {fn: agree(again[fn], np.asarray(col2[fn], dtype=float)) for fn in again}
    old_ok = {fn: agree(again[fn], first[fn]) for fn in again}
    if not (all(new_ok.values()) or all(old_ok.values())):
        cx.bad('kept accessor mixes numbers of the updated frame and of the frame before the update', updated_tensors=[list(t) for t in T2],
               follow_update=sorted(k for k, v in new_ok.items() if v), stale=sorted(k for k, v in new_ok.items() if not v), **base)


INT_RANGE = {'int32': 31, 'int64': 63, 'pyint': 63}


def int_overflows(vals, dtype):
    """Does an integer evaluation of the Mises radicand leave the range of the dtype?  (class of the known finding)
    Intermediates of both usual forms are considered (expanded: squares, mixed products, running sums; difference form:
    differences, their squares, running sums), so the class does not depend on which of the two the source uses."""
    a, b, c, d, e, f = [int(x) for x in vals]
    lim = 2 ** INT_RANGE[dtype]
    inter = [a * a, b * b, c * c, d * d, e * e, f * f, a * b, a * c, b * c]
    s = a * a + b * b
    inter.append(s)
    s += c * c
    inter.append(s)
    for p in (a * b, a * c, b * c):
        s -= p
        inter.append(s)
    q = d * d + e * e
    inter.append(q)
    q += f * f
    inter += [q, 3 * q, s + 3 * q]
    u, v, w = a - b, b - c, c - a
    inter += [u, v, w, u * u, v * v, w * w, u * u + v * v, u * u + v * v + w * w]
    return any(not (-lim <= x < lim) for x in inter)


def rel_integer(cx, vals, dtype, container):
    """Integer-typed input (the library's own tests pass Python ints) must give what the same values give as floats."""
    vals = [int(x) for x in vals]
    E = cx.impl.E
    cx.n['integer'] += 1
    if dtype == 'pyint':
        args = vals if container == 'scalar' else [[v] for v in vals]
    else:
        dt = np.dtype(dtype)
        args = [dt.type(v) for v in vals] if container == 'scalar' else [np.array([v], dtype=dt) for v in vals]
    ref = cx.scalar([float(v) for v in vals])
    nrm = fnorm(vals)
    base = dict(relation='integer', tensor=vals, dtype=dtype, container=container)
    for fn in FUNCS:
        try:
            with np.errstate(all='ignore'):
                got = float(np.asarray(getattr(E, fn)(*args), dtype=float).reshape(-1)[0])
        except Exception as ex:
            cx.bad('integer-typed input raises', function=fn, error=repr(ex), **base)
            continue
        if ref[fn] != ref[fn]:
            continue
        if not abs(got - ref[fn]) <= tol_of(fn, nrm, ref[fn]):       # also true for a NaN result
            cx.bad(W_INT, function=fn, observed=got if got == got else 'nan', expected=ref[fn], **base)


def gen_ints(rng, dtype):
    hi = {'int32': 4 * 10 ** 8, 'int64': 10 ** 12, 'pyint': 10 ** 12}[dtype]
    mag = int(10 ** rng.uniform(0, math.log10(hi)))
    return [rng.randint(-mag, mag) for _ in range(6)]


def impl_relations(res, impl, quick, extra=()):
    rng = res.rng
    cx = Ctx(res, impl)
    for t in extra:
        cx.scalar(t)
    n_t = 400 if quick else 6000
    cases = corpus_tensors()
    cases += [gen_tensor(rng, KINDS[i % len(KINDS)]) for i in range(n_t)]
    for (t, exact) in cases:
        try:
            rel_definitions(cx, t, exact)
            for _ in range(2):
                q = gen_quat(rng, exact and rng.random() < 0.7)
                ex2 = exact and is_signed_permutation(q)
                rel_transform(cx, t, rotate_exact(t, q), 1.0, 'rotation', ex2, dict(quaternion=list(q)))
            k = rng.randint(-40, 40)
            rel_transform(cx, t, tuple(x * 2.0 ** k for x in t), 2.0 ** k, 'scaling', exact, dict(factor=2.0 ** k))
            c = 10 ** rng.uniform(-6, 6)
            rel_transform(cx, t, tuple(x * c for x in t), c, 'scaling', False, dict(factor=c))
        except Exception as e:
            cx.n['raised'] += 1
            cx.bad('an equivalent-stress function raises on a valid tensor', tensor=list(t), error=repr(e), relation='definitions', exact=exact)
    # frames: sizes incl. 1, 2, 3 (3 x 3 x 3 stacking), larger; all index kinds
    sizes = [1, 2, 3, 4, 7, 24] if quick else [1, 2, 3, 4, 5, 7, 24, 100, 333]
    for j, n in enumerate(sizes * (1 if quick else 3)):
        T = [gen_tensor(rng, rng.choice(KINDS))[0] for _ in range(n)]
        rel_columns(cx, T, INDEX_KINDS[j % len(INDEX_KINDS)], rng.randrange(10 ** 6))
    rel_columns(cx, [c[0] for c in cases[:40]], 'strings', 1)
    # integer-typed input
    for j in range(30 if quick else 200):
        dtype = ('int32', 'int64', 'pyint')[j % 3]
        rel_integer(cx, gen_ints(rng, dtype), dtype, ('scalar', 'array')[(j // 3) % 2])
    return cx


# ----------------------------------------------------------------------------- certificates

def T6(t):
    return '(mkT %s)' % ' '.join(common.rlit(float(x)) for x in t)


def W3(w):
    return '(%s, %s, %s)' % tuple(common.rlit(float(x)) for x in w)


def near_abs(expr, value, tol):
    return near_expr(expr, common.rlit(float(value)), tol)


def near_expr(expr, other, tol):
    return 'Rabs (%s - %s) <= %s' % (expr, other, cert.tol_lit(max(tol, 1e-30)))


def certificates(res, impl, quick):
    rng = res.rng
    E = impl.E
    n_t = 32 if quick else 150
    cases = corpus_tensors()[:12] + [gen_tensor(rng, KINDS[i % len(KINDS)]) for i in range(n_t)]
    goals, descr, skipped = [], [], []
    A = cert.app
    # array code path: one call on all tensors as columns
    cols = impl.columns([c[0] for c in cases])
    for j, (t, exact) in enumerate(cases):
        t = tuple(float(x) for x in t)
        o = impl.scalar(t)
        if any(o[fn] != o[fn] for fn in FUNCS) or cols['mises'][j] != cols['mises'][j]:
            skipped.append(t)          # reported as W_NAN by the relations below, nothing to certify
            continue
        st, sa = impl.signs(t)
        nrm = fnorm(t)
        w = o['principals']
        tm = tol_mises(nrm, o['mises'])
        te = 1e-12 * nrm + 1e-300
        # (i) generated functions, scalar path and array path
        g = [near_abs(A('eqs_mises', *t), o['mises'], tm),
             near_abs(A('eqs__sign_trace', *t[:3]), st, 1e-12),
             near_abs(A('eqs_signed_mises_trace', *t), o['signed_mises_trace'], tm),
             near_abs(A('eqa_mises', *t), cols['mises'][j], tm),
             near_abs(A('eqa_signed_mises_trace', *t), cols['signed_mises_trace'][j], tm)]
        goals.append(' /\\ '.join(g))
        descr.append(('generated mises/_sign_trace/signed_mises_trace = impl', t))
        # (ii) contract of eigvalsh on numpy's eigenvalues
        w0, w1, w2 = [common.rlit(x) for x in w]
        g = ['sorted3 %s' % W3(w),
             near_expr('(%s + %s + %s)' % (w0, w1, w2), 'I1 %s' % T6(t), 1e-12 * nrm),
             near_expr('(%s * %s + %s * %s + %s * %s)' % (w0, w1, w0, w2, w1, w2), 'I2 %s' % T6(t), 1e-11 * nrm ** 2),
             near_expr('(%s * %s * %s)' % (w0, w1, w2), 'I3 %s' % T6(t), 1e-11 * nrm ** 3)]
        goals.append(' /\\ '.join(g))
        descr.append(('eigvalsh contract (ascending; symmetric functions = I1 I2 I3)', t, tuple(w)))
        # (iii) hand-written model applied to numpy's eigenvalues = what the functions returned
        g = [near_abs('tresca_m %s' % W3(w), o['tresca'], te),
             near_abs('max_principal_m %s' % W3(w), o['max_principal'], te),
             near_abs('min_principal_m %s' % W3(w), o['min_principal'], te),
             near_abs('signed_tresca_trace_m %s %s' % (T6(t), W3(w)), o['signed_tresca_trace'], te)]
        if not (abs(w[0] + w[2]) <= 1e-9 * nrm and not diag_exact(t, exact)):
            # (a tie up to rounding may be resolved differently by the separate eigvalsh calls inside the library)
            g += [near_abs('sign_amp_m %s' % W3(w), sa, 1e-12),
                  near_abs('abs_max_principal_m %s' % W3(w), o['abs_max_principal'], te),
                  near_abs('signed_tresca_amp_m %s' % W3(w), o['signed_tresca_abs_max_principal'], te),
                  near_abs('signed_mises_amp_m %s %s' % (T6(t), W3(w)), o['signed_mises_abs_max_principal'], tm)]
        goals.append(' /\\ '.join(g))
        descr.append(('hand model over eigvalsh output = impl (tresca, principals, abs_max, signs, signed variants)', t, tuple(w)))
    return goals, descr, skipped


# ----------------------------------------------------------------------------- known findings

def classes(res):
    def int_overflow(d):
        return d.get('relation') == 'integer' and d.get('function') in MISES_FAMILY and d.get('dtype') in INT_RANGE \
            and int_overflows(d['tensor'], d['dtype'])
    res.classes['mises_integer_overflow'] = int_overflow

    def nan_near_hydrostatic(d):
        """Mises family only, and the exact radicand I1^2 - 3 I2 lies within the rounding error of its float evaluation (64 eps |S|^2)."""
        if d.get('relation') != 'nan' or not set(d.get('functions', ['x'])) <= MISES_FAMILY:
            return False
        i1, i2, _ = invariants(d['tensor'])
        return float(i1 * i1 - 3 * i2) <= 64 * EPS * fnorm(d['tensor']) ** 2
    res.classes['mises_nan_near_hydrostatic'] = nan_near_hydrostatic


class _Collector:
    """Stands in for a Result when a known-finding witness is replayed: records, classifies nothing."""

    def __init__(self):
        self.violations = []

    def violation(self, what, **kw):
        self.violations.append(dict(kw, what=what))
        return True


def still_fails(impl):
    def f(entry):
        w = entry['witness']
        r = _Collector()
        cx = Ctx(r, impl)
        if w.get('relation') == 'integer':
            rel_integer(cx, w['tensor'], w['dtype'], w['container'])
        elif w.get('relation') == 'nan':
            cx.scalar(w['tensor'])
        return any(v['what'] == entry['what'] for v in r.violations)
    return f


# ----------------------------------------------------------------------------- run / replay

def run(res):
    import time
    quick = res.tier == 'quick'
    t0 = time.time()
    stage = {}
    classes(res)
    res.trusted += ['py2coq translator + whitelist specs/c17.py (GenEquistress: mises, _sign_trace, signed_mises_trace; scalar and array path)',
                    'hand-written mirror of tresca / max / min / abs_max_principal / _sign_abs_max_principal / signed variants in Stress/C17.v (tied by certificates)',
                    'CoqInterval + lra for the per-run certificates; float -> exact rational conversion',
                    'axioms: ClassicalDedekindReals.sig_forall_dec, sig_not_dec, functional_extensionality_dep (Coq Reals)']
    res.assumptions += ['np.linalg.eigvalsh satisfies is_eig (ascending roots of the characteristic polynomial): hypothesis of the theorems, checked per sample',
                        'floating-point rounding is outside the theorems; certificates / relations compare at 1e-9..1e-12 relative to the tensor norm, Mises with the '
                        'error bound of its radicand; signs are not compared when the indicator is zero only up to rounding (|indicator| <= 1e-9 norm, non-diagonal tensor)',
                        'stress magnitudes 1e-9..1e10 (squares neither overflow nor underflow); integer inputs up to 4e8 (int32) / 1e12 (int64, Python int)']
    res.cov['rule'] = ('tensors from 19 kinds (negative zeros, general, decimal, near-hydrostatic, plane, diagonal, uniaxial, hydrostatic, pure shear, repeated eigenvalue, zero, zero trace, '
                       'dyadic, magnitude tie / trace zero up to 2^-8..2^-44) + corpus; rotations = integer quaternions (exactly orthogonal rational matrices; signed permutations for exact cases), factors 2^k and 10^u; '
                       'frames of 1..333 rows with 5 index kinds; int32/int64/Python-int inputs.  non-trivial = tensor with a non-zero shear component and three eigenvalues '
                       'separated by > 1e-6 norm, counted distinct by component tuple')
    proofs_ok = common.standard_proof_stage(res, 'C17', extra_targets=['theories/Common/Cert.vo', 'theories/Stress/C17Cert.vo'],
                                            gen_fn=lambda: gen_specs.generate(GEN))
    stage['proofs'] = round(time.time() - t0, 1)
    impl = Impl()
    cert_nan = []
    gen_ok = not any('A:model regenerates' in b['obligation'] for b in res.broken)
    built = not any(b['obligation'].startswith('B:') for b in res.broken)
    if not built:
        res.notes.append('certificates not run: the Coq development no longer builds against the regenerated model (obligation B)')
    if gen_ok and built:
        try:
            goals, descr, skipped = certificates(res, impl, quick)
            cert_nan = skipped
            ok, bad, log = cert.run_certs('C17', REQ, UNFOLD, goals, chunk=12 if quick else 30, extra_tac=EXTRA_TAC, pre_tac=PRE_TAC)
            oks = set(ok)
            for i in range(len(goals)):
                res.oblige('certificate %s' % (descr[i],), i in oks, log if i not in oks else '')
            res.add_cases(len(goals), nontrivial=0)
            for d in descr[:3]:
                res.sample({'certificate': d})
            res.cov['certificate_goals'] = len(goals)
            res.cov['certificate_tensors_skipped_nan_result'] = len(skipped)
            res.cov['certificate_failed_inputs'] = [descr[i] for i in bad][:20]
        except Exception as e:
            res.oblige('certificates could be generated and run', False, repr(e))
    stage['certificates'] = round(time.time() - t0 - stage['proofs'], 1)
    cx = impl_relations(res, impl, quick, extra=cert_nan)
    stage['relations'] = round(time.time() - t0 - stage['proofs'] - stage['certificates'], 1)
    res.cov['stage_seconds'] = stage
    k = sum(v for kk, v in cx.n.items() if kk in ('definitions', 'rotation', 'scaling', 'columns_rows', 'integer'))
    res.add_cases(k, nontrivial=len(cx.nontrivial))
    res.cov['impl_relation_evaluations'] = dict(cx.n)
    for t in list(sorted(cx.nontrivial))[:3]:
        res.sample({'tensor': list(t), 'impl': impl.scalar(t)})
    res.replay_known(still_fails(impl))


def replay(res, rp):
    """Re-evaluates the recorded failing input on the current implementation."""
    classes(res)
    impl = Impl()
    cx = Ctx(res, impl)
    v = rp.get('violation') or {}
    rel = v.get('relation')
    print('replaying', json.dumps(v, default=str)[:600])
    if rel == 'definitions':
        rel_definitions(cx, v['tensor'], bool(v.get('exact')))
    elif rel in ('rotation', 'scaling'):
        c = 1.0 if rel == 'rotation' else float(v['factor'])
        tB = rotate_exact(v['tensor'], v['quaternion']) if rel == 'rotation' else tuple(float(x) * c for x in v['tensor'])
        rel_transform(cx, tuple(v['tensor']), tB, c, rel, bool(v.get('exact')),
                      dict(quaternion=v.get('quaternion')) if rel == 'rotation' else dict(factor=c))
    elif rel == 'columns':
        rel_columns(cx, v['tensors'], v['index_kind'], v['index_seed'])
    elif rel == 'integer':
        rel_integer(cx, v['tensor'], v['dtype'], v['container'])
    elif rel == 'nan':
        cx.scalar(v['tensor'])
    else:
        run(res)
        return res.finish()
    for kid, cnt in res.known_hits.items():
        res.known.append('%s: the replayed input is in the class of this known finding' % kid)
    res.oblige('replayed input satisfies the property', not res.violations, res.violations[:1])
    res.add_cases(1)
    return res.finish()
