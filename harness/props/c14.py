"""C14 -- load collectives and histograms account for every cycle exactly once.

Model: coq/theories/Stress/{Collective,Histogram,Rebin}.v (hand-written, over Q).  Tie: correspondence -- every
generated case is run on the real implementation and the Coq model is evaluated on the same input by vm_compute
(coq/theories/Stress/C14Check.v holds the comparison functions).  On every run the property's own relations
(accessor consistency, from/to <-> range/mean, scale/shift, each cycle in exactly one class, marginal, conservation /
identity / composition of re-binning, grand total of combine) are evaluated on the implementation alone; together with
an exact (fractions) transcription of the verified model they are the failing-input search."""
import json
import os
import warnings
from fractions import Fraction as F

import numpy as np
import pandas as pd

import common
from common import qlit, nlit

import pylife.stress.collective  # noqa: F401  (registers the load_collective accessors)

MANIFEST = dict(
    text='Theorems (props/C14.v, 25, all closed under the global context) about a hand-written Gallina model over Q of LoadCollective '
         '(amplitude, meanstress, upper, lower, R with 0/0 -> 0, cycles, range/mean -> from/to, scale, shift), of the LoadHistogram class '
         'accessors (from/to matrix, range/mean matrix, class location, scale, shift skipping the range level), of numpy\'s class assignment '
         '(half-open classes, last one closed; 1-D and 2-D, weighted), of _do_rebin_histogram (overlap / source length over the overlapping '
         'right-closed source classes), of _fail_if_binning_invalid and of combine_histogram(sum): accessor consistency, from/to <-> range/mean '
         'equivalence, scale/shift laws with untouched cycles, every value of the covered range in exactly one class and class counts summing to '
         'the cycles in the covered range, range histogram = marginal of the range/mean histogram when all means are covered, re-binning to a '
         'gap-free covering binning conserves the total (unbounded, telescoping of clipped overlaps), same binning = identity, composition through '
         'a refinement (unbounded) and refutation of general composition, histograms with several class levels (closed form of the level-wise '
         'redistribution: conservation for any number of levels, one level = the 1-D model, independence of the level order), combine conserves '
         'the grand total; the single-class target binning '
         'that today\'s validation refuses is stated as refuted + restricted theorem (known finding). The model is tied to the code by a '
         'vm_compute correspondence check on every observable and by the property relations evaluated on the implementation on every run.',
    note=common.TB_NOTE + 'all C14 theorems are closed under the global context. The model is hand-written: the correspondence harness '
         '(generators, Coq literals, exact float->rational conversion) is trusted; loads are dyadic so that the implementation\'s float '
         'arithmetic is exact where the model compares exactly, divisions are compared with relative tolerance 1e-9; pandas '
         '(IntervalIndex, groupby, broadcast) and numpy.histogram/histogram2d internals are covered by the correspondence, not by theorems; '
         'NaN cycle values and nan_default are only checked by relations on the implementation.',
    technique='Coq proof over hand-written Gallina model (Q) + vm_compute correspondence + property relations on the implementation',
    design='6/C14')

REQ = ['From PL Require Import Stress.Collective Stress.Histogram Stress.Rebin Stress.RebinND Stress.C14Check.', 'Open Scope Q_scope.']

W_REBIN_SINGLE = 'rebin_histogram refuses a gap-free increasing covering binning'
W_H2_SINGLE = 'histogram (range/mean) does not put the cycles into the requested single class'
MUTATED = [0]
W_RAISED = 'histogramming a collective raised for a valid bin specification'
W_CYCLES = 'histogram class counts do not sum to the cycles of the collective (cycles column ignored)'
W_INPLACE = 'scale/shift changes the collective it is applied to (result and collective are no longer related by the factor / offset)'


# ------------------------------------------------------------------------------------------------ literals
def q(x):
    return qlit(F(x))


def oq(x):
    return 'None' if x is None else '(Some %s)' % q(x)


def ql(xs):
    return '[' + '; '.join(q(x) for x in xs) + ']'


def ivl(i):
    return '(%s, %s)' % (q(i[0]), q(i[1]))


def ivls(xs):
    return '[' + '; '.join(ivl(i) for i in xs) + ']'


def fin(x):
    """float -> Fraction or None (inf / nan)"""
    x = float(x)
    return F(x) if np.isfinite(x) else None


def close(a, b, rtol=1e-9, atol=1e-12):
    a, b = float(a), float(b)
    if np.isnan(a) or np.isnan(b):
        return bool(np.isnan(a) and np.isnan(b))
    if np.isinf(a) or np.isinf(b):
        return a == b
    return abs(a - b) <= atol + rtol * max(abs(a), abs(b))


# ------------------------------------------------------------------------------------------------ exact oracle (= the Coq model)
def o_bins(edges):
    return [(edges[i], edges[i + 1], i == len(edges) - 2) for i in range(len(edges) - 1)]


def o_in(k, x):
    lo, hi, last = k
    return lo <= x and (x <= hi if last else x < hi)


def o_hist1(edges, pts):
    return [sum((w for x, w in pts if o_in(k, x)), F(0)) for k in o_bins(edges)]


def o_hist2(xe, ye, pts):
    return [[sum((w for x, y, w in pts if o_in(kx, x) and o_in(ky, y)), F(0)) for ky in o_bins(ye)] for kx in o_bins(xe)]


def o_auto_edges(lo, hi, n):
    if lo == hi:
        lo, hi = lo - F(1, 2), hi + F(1, 2)
    return [lo + F(i, n) * (hi - lo) for i in range(n + 1)]


def o_overlaps(a, b):
    return a[0] < b[1] and b[0] < a[1]


def o_rebin(h, b):
    """h: [((l, r), v)], b: [(l, r)] -> values"""
    if not h:
        return [F(0)] * len(b)
    out = []
    for t in b:
        occ = [s for s in h if o_overlaps(s[0], t)]
        out.append(sum((v * (min(t[1], i[1]) - max(t[0], i[0])) / (i[1] - i[0]) for i, v in occ), F(0)))
    return out


def o_adj(rel, b):
    return all(rel(b[i], b[i + 1]) for i in range(len(b) - 1))


def o_binning_ok(b):
    if not b:
        return True
    nom = o_adj(lambda a, c: a[1] <= c[0], b) or o_adj(lambda a, c: c[1] <= a[0], b)
    dec = o_adj(lambda a, c: (a[0], a[1]) >= (c[0], c[1]), b) and len(b) >= 2
    return nom and not dec and o_adj(lambda a, c: a[1] == c[0], b)


def breaks(edges):
    return [(edges[i], edges[i + 1]) for i in range(len(edges) - 1)]


# ------------------------------------------------------------------------------------------------ generators
def dy(rng, lo=-8, hi=8, den=4):
    return rng.randint(lo * den, hi * den) / den


def gen_index(rng, n):
    """index layout: None (RangeIndex), one named level, or a MultiIndex with extra levels; tuples are unique."""
    r = rng.random()
    if r < 0.3:
        return None
    if r < 0.45:
        return {'names': ['cycle_number'], 'tuples': [[i] for i in range(n)]}
    if r < 0.85:
        ne = rng.randint(1, 3)
        return {'names': ['element_id', 'cycle_number'], 'tuples': [[10 * (1 + i % ne), i // ne] for i in range(n)]}
    return {'names': ['node', 'element_id', 'cycle_number'], 'tuples': [[i % 2, 10 * (1 + (i // 2) % 2), i // 4] for i in range(n)]}


def permute_levels(rng, ix):
    """the same index entries with the levels listed in another order (the cycle axis is then not the last level); the library
    addresses levels by name, so nothing may depend on the order"""
    if ix is None or len(ix['names']) < 2:
        return ix
    perm = list(range(len(ix['names'])))
    while perm == sorted(perm):
        rng.shuffle(perm)
    return {'names': [ix['names'][p] for p in perm], 'tuples': [[t[p] for p in perm] for t in ix['tuples']]}


def gen_collective(rng, nmax=12, allow_cycles=True):
    n = rng.randint(1, nmax)
    form = rng.choice(['from_to', 'from_to', 'range_mean'])
    if form == 'from_to':
        a = [dy(rng) for _ in range(n)]
        b = [rng.choice([dy(rng), x, 0.0, 0.0 - x]) if rng.random() < 0.25 else dy(rng) for x in a]
    else:
        a = [abs(dy(rng)) if rng.random() < 0.9 else dy(rng) for _ in range(n)]        # range (sometimes negative: from > to)
        b = [dy(rng) for _ in range(n)]                                                    # mean
    cyc = None
    if allow_cycles and rng.random() < 0.35:
        cyc = [float(rng.choice([1, 1, 2, 3, 10, 0.5, 1000000])) for _ in range(n)]
    c = {'form': form, 'a': a, 'b': b, 'cycles': cyc, 'index': gen_index(rng, n)}
    if rng.random() < 0.25:
        c['index'] = permute_levels(rng, c['index'])
    if rng.random() < 0.2:
        c['columns_reversed'] = True          # columns are addressed by name: to/from resp. (cycles,) mean, range
    return c


def gen_edges(rng, lo=0.0, hi=8.0, kmax=6, dyadic=True):
    k = rng.randint(1, kmax)
    pts = set()
    while len(pts) < k + 1:
        pts.add(dy(rng, int(lo), int(hi), rng.choice([1, 2, 4])) if dyadic else round(rng.uniform(lo, hi), 3))
    return sorted(pts)


def gen_bins(rng, for_range=True):
    lo, hi = (0, 9) if for_range else (-8, 8)
    r = rng.random()
    if r < 0.2:
        return {'kind': 'count', 'n': rng.choice([1, 1, 2, 3, 4, 5, 8])}
    e = gen_edges(rng, lo, hi, dyadic=rng.random() < 0.85)
    if rng.random() < 0.2:
        e = e[:1] + e[-1:]                       # a single class
    if r < 0.6:
        return {'kind': 'edges', 'edges': e}
    if r < 0.85:
        return {'kind': 'interval_index', 'edges': e}
    return {'kind': 'interval_array', 'edges': e}


def make_bins(spec):
    k = spec['kind']
    if k == 'count':
        return int(spec['n'])
    if k == 'edges':
        return list(spec['edges'])
    if k == 'edges_int':
        return [int(x) for x in spec['edges']]
    if k == 'interval_index':
        return pd.IntervalIndex.from_breaks([float(x) for x in spec['edges']])
    if k == 'interval_index_int':
        return pd.IntervalIndex.from_breaks([int(x) for x in spec['edges']])
    if k == 'interval_array':
        return pd.arrays.IntervalArray.from_breaks([float(x) for x in spec['edges']])
    if k == 'pair':
        return [np.asarray(spec['x'], dtype=float), np.asarray(spec['y'], dtype=float)]
    raise ValueError(k)


# ------------------------------------------------------------------------------------------------ running the implementation
def make_frame(c):
    cols = ['from', 'to'] if c['form'] == 'from_to' else ['range', 'mean']
    d = {cols[0]: [float(x) for x in c['a']], cols[1]: [float(x) for x in c['b']]}
    if c.get('cycles') is not None:
        d['cycles'] = [float(x) for x in c['cycles']]
    if c.get('columns_reversed'):
        d = {k: d[k] for k in reversed(list(d))}
    ix = c.get('index')
    index = None
    if ix is not None:
        if len(ix['names']) == 1:
            index = pd.Index([t[0] for t in ix['tuples']], name=ix['names'][0])
        else:
            index = pd.MultiIndex.from_tuples([tuple(t) for t in ix['tuples']], names=ix['names'])
    return pd.DataFrame(d, index=index)


def keys_of(index):
    return [tuple(k) if isinstance(k, tuple) else (k,) for k in index]


def from_to_exact(c):
    """exact (from, to) of every row, in row order: the Coq model's mkloop / of_range_mean"""
    if c['form'] == 'from_to':
        return [(F(x), F(y)) for x, y in zip(c['a'], c['b'])]
    return [(F(m) - F(r) / 2, F(m) + F(r) / 2) for r, m in zip(c['a'], c['b'])]


def loop_lit(c, i):
    cyc = oq(None if c.get('cycles') is None else c['cycles'][i])
    if c['form'] == 'from_to':
        return '(mkloop %s %s %s)' % (q(c['a'][i]), q(c['b'][i]), cyc)
    return '(of_range_mean %s %s %s)' % (q(c['a'][i]), q(c['b'][i]), cyc)


def observe_collective(lc):
    """every accessor of a LoadCollective, keyed by the index entry of the row"""
    df = lc.to_pandas()
    ks = keys_of(df.index)
    cols = {'amplitude': lc.amplitude, 'meanstress': lc.meanstress, 'upper': lc.upper, 'lower': lc.lower, 'R': lc.R, 'cycles': lc.cycles}
    out = {}
    for name, s in cols.items():
        if len(s) != len(ks) or keys_of(s.index) != ks:
            raise AssertionError('accessor %s is not aligned with the collective' % name)
        out[name] = [float(v) for v in s.values]
    out['from'] = [float(v) for v in df['from'].values]
    out['to'] = [float(v) for v in df['to'].values]
    out['cyc_col'] = [float(v) for v in df['cycles'].values] if 'cycles' in df.columns else None
    out['keys'] = ks
    return out


def operand_of(c, op):
    """scalar, or a Series along one index level"""
    o = op['operand']
    if not isinstance(o, dict):
        return float(o)
    return pd.Series({k: float(v) for k, v in o['values']}, name='x').rename_axis(o['level'])


def operand_for_key(c, op, key):
    o = op['operand']
    if not isinstance(o, dict):
        return F(o)
    pos = c['index']['names'].index(o['level'])
    return F(dict((k, v) for k, v in o['values'])[key[pos]])


# ------------------------------------------------------------------------------------------------ relation: collective
def rel_collective(case):
    """Returns (failures, coq_term, nontrivial).  failures: [(what, detail)]"""
    c, op = case['collective'], case.get('op')
    fails, info = [], {}
    df = make_frame(c)
    base = observe_collective(df.load_collective)
    n = len(c['a'])
    rowkeys = keys_of(df.index)
    ft = from_to_exact(c)
    if base['keys'] != rowkeys:
        return [('collective lost or reordered rows', str(base['keys'][:4]))], None, False, info
    # -- mutual consistency, and the definitions against the given from/to resp. range/mean
    for i in range(n):
        a, m, u, l, r, cy = (base[k][i] for k in ('amplitude', 'meanstress', 'upper', 'lower', 'R', 'cycles'))
        fr, to = ft[i]
        if not close(u - l, 2 * a):
            fails.append(('upper - lower != 2 amplitude', (i, u, l, a)))
        if not close((u + l) / 2, m):
            fails.append(('(upper + lower)/2 != mean', (i, u, l, m)))
        if u != 0 and not (np.isfinite(r) and close(r * u, l)):
            fails.append(('R != lower/upper', (i, r, l, u)))
        if u == 0 and l == 0 and r != 0:
            fails.append(('R != 0 for a 0/0 loop', (i, r)))
        if F(a) != abs(fr - to) / 2 or F(m) != (fr + to) / 2 or F(u) != max(fr, to) or F(l) != min(fr, to):
            fails.append(('amplitude/mean/upper/lower do not describe the given loop', (i, float(fr), float(to), a, m, u, l)))
        want_c = 1.0 if c.get('cycles') is None else c['cycles'][i]
        if cy != want_c:
            fails.append(('cycles accessor != cycle column (or 1.0 without one)', (i, cy, want_c)))
        if c['form'] == 'range_mean' and (F(base['from'][i]), F(base['to'][i])) != (fr, to):
            fails.append(('range/mean frame not converted to mean -/+ range/2', (i, base['from'][i], base['to'][i])))
    # -- equivalence of the two descriptions: re-describe by range = 2 amplitude, mean and compare every accessor
    d2 = {'range': [2 * x for x in base['amplitude']], 'mean': base['meanstress']}
    if base['cyc_col'] is not None:
        d2['cycles'] = base['cyc_col']
    alt = observe_collective(pd.DataFrame(d2, index=df.index).load_collective)
    for k in ('amplitude', 'meanstress', 'upper', 'lower', 'R', 'cycles'):
        if not all(close(x, y) for x, y in zip(alt[k], base[k])):
            fails.append(('range/mean description gives different %s than from/to' % k, (alt[k][:6], base[k][:6])))
    if not all(close(x, y) for x, y in zip(alt['from'], base['lower'])) or not all(close(x, y) for x, y in zip(alt['to'], base['upper'])):
        fails.append(('range/mean description: from/to are not lower/upper', (alt['from'][:6], alt['to'][:6])))
    terms = []
    if op is None:
        for i in range(n):
            terms.append('check_loop %s %s %s %s %s %s %s' % (loop_lit(c, i), q(base['amplitude'][i]), q(base['meanstress'][i]), q(base['upper'][i]),
                                                            q(base['lower'][i]), oq(fin(base['R'][i])), q(base['cycles'][i])))
            terms.append('check_frame %s %s %s %s' % (loop_lit(c, i), q(base['from'][i]), q(base['to'][i]),
                                                     oq(None if base['cyc_col'] is None else base['cyc_col'][i])))
    else:
        lc = df.load_collective
        before = df.copy()
        res = lc.scale(operand_of(c, op)) if op['kind'] == 'scale' else lc.shift(operand_of(c, op))
        after = observe_collective(res)
        # (observation outside C14: with a scalar operand LoadCollective.scale/shift write into the caller's from/to frame;
        #  `before` is kept so that nothing below depends on it)
        MUTATED[0] += 0 if before.equals(df) else 1
        if sorted(after['keys']) != sorted(rowkeys):
            fails.append(('scale/shift lost or duplicated rows', (after['keys'][:5], rowkeys[:5])))
        else:
            pos = {k: j for j, k in enumerate(after['keys'])}
            for i, k in enumerate(rowkeys):
                j = pos[k]
                x = operand_for_key(c, op, k)
                a0, m0, cy0 = F(base['amplitude'][i]), F(base['meanstress'][i]), base['cycles'][i]
                a1, m1, cy1 = F(after['amplitude'][j]), F(after['meanstress'][j]), after['cycles'][j]
                if cy1 != cy0 or (base['cyc_col'] is None) != (after['cyc_col'] is None):
                    fails.append(('%s changed the cycle counts' % op['kind'], (k, cy0, cy1)))
                if op['kind'] == 'scale' and (a1 != abs(x) * a0 or m1 != x * m0):
                    fails.append(('scale: amplitude/mean not multiplied by the factor', (k, float(x), float(a0), float(a1), float(m0), float(m1))))
                if op['kind'] == 'shift' and (a1 != a0 or m1 != m0 + x):
                    fails.append(('shift: amplitude changed or mean not shifted', (k, float(x), float(a0), float(a1), float(m0), float(m1))))
                fn = 'scale' if op['kind'] == 'scale' else 'shift'
                lit = '(%s %s %s)' % (fn, q(x), loop_lit(c, i))
                terms.append('check_loop %s %s %s %s %s %s %s' % (lit, q(after['amplitude'][j]), q(after['meanstress'][j]), q(after['upper'][j]),
                                                                q(after['lower'][j]), oq(fin(after['R'][j])), q(after['cycles'][j])))
                terms.append('check_frame %s %s %s %s' % (lit, q(after['from'][j]), q(after['to'][j]),
                                                         oq(None if after['cyc_col'] is None else after['cyc_col'][j])))
        # -- the law relates the result to the collective: the collective itself (as the caller holds it: the frame and its accessor) is
        #    what it was, and applying the same operand once more gives the same result
        info['scalar_operand'] = not isinstance(op['operand'], dict)
        now = observe_collective(df.load_collective)
        changed = [k for k in ('from', 'to', 'amplitude', 'meanstress', 'cycles') if now[k] != base[k]] + ([] if before.equals(df) else ['caller frame'])
        if changed or now['keys'] != base['keys']:
            i = next((i for i in range(n) if now['amplitude'][i] != base['amplitude'][i] or now['meanstress'][i] != base['meanstress'][i]), 0)
            fails.append((W_INPLACE, {'changed': changed, 'row': i, 'amplitude_before': base['amplitude'][i], 'amplitude_now': now['amplitude'][i],
                                      'mean_before': base['meanstress'][i], 'mean_now': now['meanstress'][i]}))
        lc2 = df.load_collective
        again = observe_collective(lc2.scale(operand_of(c, op)) if op['kind'] == 'scale' else lc2.shift(operand_of(c, op)))
        if not changed and any(again[k] != after[k] for k in ('keys', 'from', 'to', 'cycles')):
            fails.append(('applying the same scale/shift to the same collective a second time gives a different result',
                          {'first': (after['from'][:4], after['to'][:4]), 'second': (again['from'][:4], again['to'][:4])}))
    nontriv = n >= 2 and len({x > y for x, y in ft if x != y}) == 2          # both orientations occur
    return fails, '(' + ' && '.join(terms + ['true']) + ')', nontriv, info


def gen_collective_case(rng):
    c = gen_collective(rng)
    op = None
    r = rng.random()
    if r < 0.55:
        kind = rng.choice(['scale', 'shift'])
        val = lambda: rng.choice([2.0, 0.5, -1.0, -1.5, 0.25, 3.0, 1.0]) if kind == 'scale' else rng.choice([1.0, -2.5, 0.25, 100.0, -0.5])
        ix = c['index']
        if ix is not None and len(ix['names']) >= 2 and rng.random() < 0.5:
            level = rng.choice([nm for nm in ix['names'] if nm != 'cycle_number'])
            pos = ix['names'].index(level)
            vals = sorted({t[pos] for t in ix['tuples']})
            op = {'kind': kind, 'operand': {'level': level, 'values': [[v, val()] for v in vals]}}
        else:
            op = {'kind': kind, 'operand': val()}
    return {'rel': 'collective', 'collective': c, 'op': op}


# ------------------------------------------------------------------------------------------------ relation: histograms of a collective
def series_items(s):
    """[(index entry as tuple, value)] of a pandas Series"""
    return list(zip(keys_of(s.index), [float(v) for v in s.values]))


def group_rows(c, axis):
    """{group key tuple: [row numbers]} the way range_histogram/histogram group: by every named level but `axis`"""
    ix = c.get('index')
    n = len(c['a'])
    if axis is None:
        return {(): list(range(n))}, []
    names = [nm for nm in ix['names'] if nm != axis]
    pos = [ix['names'].index(nm) for nm in names]
    g = {}
    for i, t in enumerate(ix['tuples']):
        g.setdefault(tuple(t[p] for p in pos), []).append(i)
    return g, names


def requested_edges(spec, values):
    """the class edges the bin specification asks for (exact), values: exact data (for bins=n)"""
    if spec['kind'] == 'count':
        return o_auto_edges(min(values), max(values), spec['n'])
    if spec['kind'] == 'pair':
        raise ValueError
    return [F(x) for x in spec['edges']]


def rel_histogram(case):
    c, spec, axis, dim = case['collective'], case['bins'], case.get('axis'), case['dim']
    fails, terms = [], []
    df = make_frame(c)
    lc = df.load_collective
    ft = from_to_exact(c)
    rng_ = [abs(x - y) for x, y in ft]
    mean_ = [(x + y) / 2 for x, y in ft]
    w_ = [F(1)] * len(ft) if c.get('cycles') is None else [F(x) for x in c['cycles']]
    weighted = c.get('cycles') is not None and any(x != 1 for x in w_)
    groups, gnames = group_rows(c, axis)
    single = 'edges' in spec and len(spec['edges']) == 2
    info = {'single_class': single, 'dim': dim, 'weighted': weighted, 'bins_kind': spec['kind'], 'axis': axis, 'extra_levels': len(gnames)}
    try:
        h = (lc.range_histogram(make_bins(spec), axis) if dim == 1 else lc.histogram(make_bins(spec), axis)).to_pandas()
    except Exception as e:
        if dim == 2 and single and not (axis is not None and not gnames):          # (no extra level: the grouping raised, not numpy)
            return [(W_H2_SINGLE, 'raised %r' % (e,))], None, False, info
        return [(W_RAISED, repr(e))], None, False, info
    lvl = ['range'] if dim == 1 else ['range', 'mean']
    if list(h.index.names) != gnames + lvl:
        return [('histogram index levels are not the extra levels + %s' % lvl, list(h.index.names))], None, False, info
    got = {}
    for k, v in series_items(h):
        got.setdefault(tuple(k[:len(gnames)]), []).append((k[len(gnames):], v))
    if sorted(got) != sorted(groups):
        return [('histogram groups are not the groups of the collective', (sorted(got)[:5], sorted(groups)[:5]))], None, False, info
    nontriv = False
    for g, rows in groups.items():
        cls = got[g]
        xs = [rng_[i] for i in rows]
        ms = [mean_[i] for i in rows]
        ws = [w_[i] for i in rows]
        if dim == 1:
            edges = [F(cls[0][0][0].left)] + [F(iv[0].right) for iv, _ in cls]
            counts = [F(v) for _, v in cls]
            want_edges = requested_edges(spec, xs)
            if len(edges) != len(want_edges) or not all(close(a, b) for a, b in zip(edges, want_edges)):
                fails.append(('range_histogram classes are not the requested ones', ([float(x) for x in edges], [float(x) for x in want_edges])))
                continue
            inside = sum((w for x, w in zip(xs, ws) if edges[0] <= x <= edges[-1]), F(0))
            exp_w = o_hist1(edges, list(zip(xs, ws)))
            exp_1 = o_hist1(edges, [(x, F(1)) for x in xs])
            if counts != exp_w:
                if weighted and counts == exp_1:
                    fails.append((W_CYCLES, {'group': list(g), 'counts': [float(x) for x in counts], 'cycles_in_covered_range': float(inside)}))
                elif sum(counts) != inside:
                    fails.append(('range_histogram: class counts do not sum to the cycles inside the covered range',
                                  {'group': list(g), 'counts': [float(x) for x in counts], 'inside': float(inside)}))
                else:
                    fails.append(('range_histogram: a cycle is counted in a class that does not contain its range',
                                  {'group': list(g), 'counts': [float(x) for x in counts], 'expected': [float(x) for x in exp_w]}))
            pts = list(zip(xs, ws if not (weighted and counts == exp_1) else [F(1)] * len(xs)))
            terms.append('check_hist1 %s [%s] %s' % (ql(edges), '; '.join('(%s, %s)' % (q(x), q(w)) for x, w in pts), ql(counts)))
            if spec['kind'] == 'count':
                terms.append('check_auto_edges %s %s %s %s' % (q(min(xs)), q(max(xs)), nlit(spec['n']), ql(edges)))
            nontriv = nontriv or (len(edges) >= 3 and any(x in edges for x in xs))
        else:
            re_ = sorted({F(k[0].left) for k, _ in cls} | {F(k[0].right) for k, _ in cls})
            me_ = sorted({F(k[1].left) for k, _ in cls} | {F(k[1].right) for k, _ in cls})
            if len(cls) != (len(re_) - 1) * (len(me_) - 1):
                fails.append(('range/mean histogram is not a full class product', len(cls)))
                continue
            counts = [[F(cls[i * (len(me_) - 1) + j][1]) for j in range(len(me_) - 1)] for i in range(len(re_) - 1)]
            if spec['kind'] == 'count':
                want_r, want_m = o_auto_edges(min(xs), max(xs), spec['n']), o_auto_edges(min(ms), max(ms), spec['n'])
            elif spec['kind'] == 'pair':
                want_r, want_m = [F(x) for x in spec['x']], [F(x) for x in spec['y']]
            else:
                want_r = want_m = [F(x) for x in spec['edges']]
            ok_classes = (len(re_) == len(want_r) and len(me_) == len(want_m) and all(close(a, b) for a, b in zip(re_, want_r))
                          and all(close(a, b) for a, b in zip(me_, want_m)))
            if not ok_classes:
                what = W_H2_SINGLE if single else 'range/mean histogram classes are not the requested ones'
                fails.append((what, {'range_classes': [float(x) for x in re_], 'mean_classes': [float(x) for x in me_],
                                     'requested': [[float(x) for x in want_r], [float(x) for x in want_m]]}))
                continue
            pts = list(zip(xs, ms, ws))
            exp_w = o_hist2(re_, me_, pts)
            exp_1 = o_hist2(re_, me_, [(x, m, F(1)) for x, m in zip(xs, ms)])
            inside = sum((w for x, m, w in pts if re_[0] <= x <= re_[-1] and me_[0] <= m <= me_[-1]), F(0))
            unweighted = weighted and counts == exp_1 and counts != exp_w
            if counts != exp_w:
                if unweighted:
                    fails.append((W_CYCLES, {'group': list(g), 'total': float(sum(map(sum, counts))), 'cycles_in_covered_range': float(inside)}))
                elif sum(map(sum, counts)) != inside:
                    fails.append(('range/mean histogram: class counts do not sum to the cycles inside the covered range',
                                  {'group': list(g), 'total': float(sum(map(sum, counts))), 'inside': float(inside)}))
                else:
                    fails.append(('range/mean histogram: a cycle is counted in a class that does not contain it',
                                  {'group': list(g), 'counts': [[float(x) for x in r] for r in counts]}))
            if unweighted:
                pts = [(x, m, F(1)) for x, m in zip(xs, ms)]
            terms.append('check_hist2 %s %s [%s] [%s]' % (ql(re_), ql(me_), '; '.join('(%s, %s, %s)' % (q(x), q(m), q(w)) for x, m, w in pts),
                                                         '; '.join(ql(r) for r in counts)))
            nontriv = nontriv or (len(re_) >= 3 and any(x in re_ for x in xs))
    # -- marginal: with every mean in the covered mean range the range histogram is the row sum of the range/mean histogram
    if dim == 2 and not fails and spec['kind'] != 'pair':
        try:
            h1 = lc.range_histogram(make_bins(spec), axis).to_pandas()
            marg = h.groupby(gnames + ['range'], observed=True, sort=False).sum() if gnames else h.groupby('range', observed=True, sort=False).sum()
            for g, rows in groups.items():
                cls = got[g]
                me_ = sorted({F(k[1].left) for k, _ in cls} | {F(k[1].right) for k, _ in cls})
                if not all(me_[0] <= mean_[i] <= me_[-1] for i in rows):
                    continue
                a = sorted((k[len(gnames):][0].left, v) for k, v in series_items(h1) if tuple(k[:len(gnames)]) == g)
                b = sorted((k[len(gnames):][0].left, v) for k, v in series_items(marg) if tuple(k[:len(gnames)]) == g)
                if len(a) != len(b) or not all(close(x[0], y[0]) and x[1] == y[1] for x, y in zip(a, b)):
                    what = W_H2_SINGLE if single else 'range histogram is not the marginal of the range/mean histogram'
                    fails.append((what, {'group': list(g), 'range_histogram': a, 'marginal': b}))
        except Exception as e:
            fails.append(('marginal of the range/mean histogram could not be computed', repr(e)))
    return fails, ('(' + ' && '.join(terms + ['true']) + ')') if terms else None, nontriv, info


def gen_histogram_case(rng):
    c = gen_collective(rng)
    ix = c['index']
    axis = None
    if ix is not None and len(ix['names']) >= 2 and rng.random() < 0.7:
        axis = 'cycle_number'
    elif ix is not None and len(ix['names']) == 1 and rng.random() < 0.5:
        axis = 'cycle_number'          # along the only level (a rainflow collective): one group, the whole collective
    dim = rng.choice([1, 2])
    spec = gen_bins(rng, for_range=True)
    if dim == 2 and spec['kind'] != 'count':
        r = rng.random()
        if r < 0.5:       # classes that cover the means too
            lo = min(spec['edges'][0], -9.0)
            e = sorted(set([lo] + spec['edges'] + [9.0]))
            spec = dict(spec, edges=e)
        elif r < 0.65:
            spec = {'kind': 'pair', 'x': spec['edges'] if len(spec['edges']) > 2 else [0.0, 1.0, 16.0], 'y': gen_edges(rng, -9, 9)}
    if dim == 2 and spec['kind'] == 'pair' and len(spec['y']) == len(spec['x']):
        spec['y'] = spec['y'] + [spec['y'][-1] + 1.0]     # (equal lengths would make numpy read a 2-d array)
    return {'rel': 'histogram', 'collective': c, 'bins': spec, 'axis': axis, 'dim': dim}


# ------------------------------------------------------------------------------------------------ relation: recorder histogram
def rel_recorder(case):
    import pylife.stress.rainflow as RF
    fr, to, spec = case['from'], case['to'], case['bins']
    rec = RF.LoopValueRecorder()
    k = max(1, len(fr) // 2)
    rec.record_values(fr[:k], to[:k])
    rec.record_values(fr[k:], to[k:])
    h = rec.histogram(make_bins(spec))
    fails = []
    if list(h.index.names) != ['from', 'to']:
        return [('recorder histogram index levels are not from/to', list(h.index.names))], None, False
    items = series_items(h)
    fe = sorted({F(k[0].left) for k, _ in items} | {F(k[0].right) for k, _ in items})
    te = sorted({F(k[1].left) for k, _ in items} | {F(k[1].right) for k, _ in items})
    if len(items) != (len(fe) - 1) * (len(te) - 1):
        return [('recorder histogram is not a full class product', len(items))], None, False
    counts = [[F(items[i * (len(te) - 1) + j][1]) for j in range(len(te) - 1)] for i in range(len(fe) - 1)]
    X, Y = [F(x) for x in fr], [F(y) for y in to]
    if spec['kind'] == 'count':
        wf, wt = o_auto_edges(min(X), max(X), spec['n']), o_auto_edges(min(Y), max(Y), spec['n'])
    elif spec['kind'] == 'pair':
        wf, wt = [F(x) for x in spec['x']], [F(x) for x in spec['y']]
    else:
        wf = wt = [F(x) for x in spec['edges']]
    if len(fe) != len(wf) or len(te) != len(wt) or not all(close(a, b) for a, b in zip(fe + te, wf + wt)):
        return [('recorder histogram classes are not the requested ones', ([float(x) for x in fe], [float(x) for x in te]))], None, False
    pts = [(x, y, F(1)) for x, y in zip(X, Y)]
    inside = sum(1 for x, y in zip(X, Y) if fe[0] <= x <= fe[-1] and te[0] <= y <= te[-1])
    if sum(map(sum, counts)) != inside:
        fails.append(('recorder histogram: class counts do not sum to the loops inside the covered range', (float(sum(map(sum, counts))), inside)))
    elif counts != o_hist2(fe, te, pts):
        fails.append(('recorder histogram: a loop is counted in a class that does not contain it', [[float(x) for x in r] for r in counts]))
    term = 'check_hist2 %s %s [%s] [%s]' % (ql(fe), ql(te), '; '.join('(%s, %s, %s)' % (q(x), q(y), q(w)) for x, y, w in pts),
                                           '; '.join(ql(r) for r in counts))
    return fails, term, len(fe) >= 3 and any(x in fe for x in X)


def gen_recorder_case(rng):
    n = rng.randint(1, 14)
    fr = [dy(rng) for _ in range(n)]
    to = [dy(rng) for _ in range(n)]
    r = rng.random()
    if r < 0.25:
        spec = {'kind': 'count', 'n': rng.choice([1, 2, 3, 4, 8, 10])}
    elif r < 0.75:
        e = gen_edges(rng, -8, 8, kmax=7)
        spec = {'kind': 'edges', 'edges': e if len(e) > 2 else [-8.0, 0.0, 8.0]}
    else:
        x, y = gen_edges(rng, -8, 8), gen_edges(rng, -8, 8)
        if len(y) == len(x):
            y = y + [y[-1] + 1.0]
        spec = {'kind': 'pair', 'x': x, 'y': y}
    return {'rel': 'recorder', 'from': fr, 'to': to, 'bins': spec}


# ------------------------------------------------------------------------------------------------ relation: LoadHistogram accessors, scale / shift
def make_matrix(m):
    kind = m['kind']
    if kind == 'range':
        idx = pd.IntervalIndex.from_tuples([tuple(map(float, i)) for i in m['range']], name='range')
    else:
        a, b = ('from', 'to') if kind == 'from_to' else ('range', 'mean')
        idx = pd.MultiIndex.from_arrays([pd.IntervalIndex.from_tuples([tuple(map(float, i)) for i in m[a]]),
                                         pd.IntervalIndex.from_tuples([tuple(map(float, i)) for i in m[b]])], names=[a, b])
    if m.get('swapped') and kind != 'range':          # the class levels listed the other way round: (to, from) resp. (mean, range)
        idx = idx.swaplevel(0, 1)
    if m.get('extra'):
        arrays = [idx] if kind == 'range' else [idx.get_level_values(i) for i in range(2)]
        names = list(idx.names)
        pos = min(int(m.get('extra_pos', 0)), len(arrays))          # the extra level in front of, between or behind the class levels
        arrays.insert(pos, pd.Index(m['extra'], name='element_id'))
        names.insert(pos, 'element_id')
        idx = pd.MultiIndex.from_arrays(arrays, names=names)
    return pd.Series([float(v) for v in m['values']], index=idx, name='cycles')


def class_lits(m):
    out = []
    for i in range(len(m['values'])):
        if m['kind'] == 'from_to':
            out.append('(FromTo %s %s)' % (ivl(m['from'][i]), ivl(m['to'][i])))
        elif m['kind'] == 'range_mean':
            out.append('(RangeMean %s (Some %s))' % (ivl(m['range'][i]), ivl(m['mean'][i])))
        else:
            out.append('(RangeMean %s None)' % ivl(m['range'][i]))
    return out


def observe_matrix(lh):
    return {k: [float(v) for v in getattr(lh, k).values] for k in ('amplitude', 'meanstress', 'upper', 'lower', 'R', 'cycles')}


def at_loc(loc, i):
    l, r = F(i[0]), F(i[1])
    return {'mid': (l + r) / 2, 'left': l, 'right': r}[loc]


def rel_matrix(case):
    m, loc, op = case['matrix'], case['loc'], case.get('op')
    fails, terms = [], []
    s = make_matrix(m)

    def located(series):
        lh = series.load_collective
        if loc == 'right':
            lh = lh.use_class_right()
        elif loc == 'left':
            lh = lh.use_class_left()
        return lh
    base = observe_matrix(located(s))
    n = len(m['values'])
    LOC = {'mid': 'LMid', 'left': 'LLeft', 'right': 'LRight'}[loc]
    lits = class_lits(m)
    for i in range(n):
        a, me, u, l, r = (base[k][i] for k in ('amplitude', 'meanstress', 'upper', 'lower', 'R'))
        if not close(u - l, 2 * a) or not close((u + l) / 2, me):
            fails.append(('load histogram: upper/lower inconsistent with amplitude/mean', (i, a, me, u, l)))
        if u != 0 and not (np.isfinite(r) and close(r * u, l)):
            fails.append(('load histogram: R != lower/upper', (i, r, l, u)))
        if u == 0 and l == 0 and r != 0:
            fails.append(('load histogram: R != 0 for 0/0', (i, r)))
        if m['kind'] == 'from_to':
            ea = abs(at_loc(loc, m['from'][i]) - at_loc(loc, m['to'][i])) / 2
            em = (at_loc(loc, m['from'][i]) + at_loc(loc, m['to'][i])) / 2
        else:
            ea = at_loc(loc, m['range'][i]) / 2
            em = at_loc(loc, m['mean'][i]) if m['kind'] == 'range_mean' else F(0)
        if F(a) != ea or F(me) != em:
            fails.append(('load histogram: amplitude/mean are not those of the class %s' % loc, (i, a, me, float(ea), float(em))))
        if base['cycles'][i] != float(m['values'][i]):
            fails.append(('load histogram: cycles accessor != class contents', (i, base['cycles'][i])))
        if op is None:
            terms.append('check_class %s %s %s %s %s %s %s' % (LOC, lits[i], q(a), q(me), q(u), q(l), oq(fin(r))))
    # one accessor object read, switched to another class location and read again (use_class_right / use_class_left return the same
    # object): amplitude, mean, upper, lower and R of that object must be mutually consistent after every switch
    try:
        lh = s.load_collective
        observe_matrix(lh)
        for sw in (['right', 'left'] if loc != 'left' else ['left', 'right']):
            lh = lh.use_class_right() if sw == 'right' else lh.use_class_left()
            ob = observe_matrix(lh)
            for i in range(n):
                a, me, u, l, r = (ob[k][i] for k in ('amplitude', 'meanstress', 'upper', 'lower', 'R'))
                if not close(u - l, 2 * a) or not close((u + l) / 2, me) or (u != 0 and not (np.isfinite(r) and close(r * u, l))):
                    fails.append(('load histogram: upper/lower/R inconsistent with amplitude/mean after switching the kept accessor to use_class_%s' % sw,
                                  (i, a, me, u, l, r)))
                    break
    except Exception as e:   # noqa: BLE001
        fails.append(('load histogram: switching the class location of a kept accessor raised', repr(e)))
    if op is not None:
        x = float(op['operand'])
        before = s.copy()
        try:
            t = s.load_collective.scale(x) if op['kind'] == 'scale' else s.load_collective.shift(x)
            tp = t.to_pandas()
        except Exception as e:
            if op['kind'] == 'scale' and x < 0:          # pandas refuses intervals with left > right
                return fails, None, False
            return fails + [('load histogram %s raised' % op['kind'], repr(e))], None, False
        after = observe_matrix(located(tp))
        if not (s.equals(before) and s.index.equals(before.index) and list(s.index.names) == list(before.index.names)):
            fails.append(('load histogram %s changes the histogram it is applied to' % op['kind'], None))
        if after['cycles'] != base['cycles']:
            fails.append(('load histogram %s changed the cycle counts' % op['kind'], (base['cycles'][:5], after['cycles'][:5])))
        fx = F(x)
        for i in range(n):
            a0, m0, a1, m1 = F(base['amplitude'][i]), F(base['meanstress'][i]), F(after['amplitude'][i]), F(after['meanstress'][i])
            if op['kind'] == 'scale' and (a1 != fx * a0 or m1 != fx * m0):
                fails.append(('load histogram scale: amplitude/mean not multiplied', (i, x, float(a0), float(a1), float(m0), float(m1))))
            if op['kind'] == 'shift' and (a1 != a0 or m1 != m0 + (0 if m['kind'] == 'range' else fx)):
                fails.append(('load histogram shift: amplitude changed or mean not shifted', (i, x, float(a0), float(a1), float(m0), float(m1))))
            fn = 'h_scale' if op['kind'] == 'scale' else 'h_shift'
            terms.append('check_class %s (%s %s %s) %s %s %s %s %s' % (LOC, fn, q(x), lits[i], q(after['amplitude'][i]), q(after['meanstress'][i]),
                                                                     q(after['upper'][i]), q(after['lower'][i]), oq(fin(after['R'][i]))))
    return fails, '(' + ' && '.join(terms + ['true']) + ')', n >= 2


def gen_ivl(rng, lo=-8, hi=8, nonneg=False):
    a = dy(rng, 0 if nonneg else lo, hi)
    return [a, a + rng.choice([0.25, 0.5, 1.0, 2.0, 3.0])]


def gen_matrix_case(rng):
    kind = rng.choice(['from_to', 'range_mean', 'range'])
    n = rng.randint(1, 8)
    m = {'kind': kind, 'values': [float(rng.choice([0, 1, 2, 3, 5, 0.5, 1000])) for _ in range(n)]}
    seen = set()

    def fresh(gen):
        while True:
            t = gen()
            if repr(t) not in seen:
                seen.add(repr(t))
                return t
    if kind == 'from_to':
        pairs = [fresh(lambda: (gen_ivl(rng), gen_ivl(rng))) for _ in range(n)]
        m['from'], m['to'] = [p[0] for p in pairs], [p[1] for p in pairs]
    elif kind == 'range_mean':
        pairs = [fresh(lambda: (gen_ivl(rng, nonneg=True), gen_ivl(rng))) for _ in range(n)]
        m['range'], m['mean'] = [p[0] for p in pairs], [p[1] for p in pairs]
    else:
        m['range'] = [fresh(lambda: gen_ivl(rng, nonneg=True)) for _ in range(n)]
    if rng.random() < 0.3:
        m['extra'] = [10 * (1 + i % 2) for i in range(n)]
        m['extra_pos'] = rng.choice([0, 0, 1, 2])
    if kind != 'range' and rng.random() < 0.3:
        m['swapped'] = True
    op = None
    if rng.random() < 0.6:
        k = rng.choice(['scale', 'shift'])
        op = {'kind': k, 'operand': rng.choice([2.0, 0.5, 0.25, 3.0, 1.0]) if k == 'scale' else rng.choice([1.0, -2.5, 0.25, 100.0])}
    return {'rel': 'matrix', 'matrix': m, 'loc': rng.choice(['mid', 'mid', 'left', 'right']), 'op': op}


# ------------------------------------------------------------------------------------------------ relation: rebin_histogram
def make_hist(h):
    if not h:
        return pd.Series([], index=pd.IntervalIndex.from_breaks(np.array([], dtype=float)), dtype=float)
    return pd.Series([float(v) for _, _, v in h], index=pd.IntervalIndex.from_tuples([(float(l), float(r)) for l, r, _ in h]), dtype=float)


def make_binning(b):
    return pd.IntervalIndex.from_tuples([(float(l), float(r)) for l, r in b]) if b else pd.IntervalIndex.from_tuples([])


def hist_lit(h):
    return '[' + '; '.join('(%s, %s)' % (ivl((l, r)), q(v)) for l, r, v in h) + ']'


def run_rebin(h, target, nan_default=False):
    from pylife.utils.histogram import rebin_histogram
    with warnings.catch_warnings():
        warnings.simplefilter('ignore')
        return rebin_histogram(make_hist(h), target, nan_default=nan_default) if nan_default else rebin_histogram(make_hist(h), target)


def rel_rebin(case):
    h, tgt = [tuple(x) for x in case['hist']], case['target']
    fails, terms = [], []
    hx = [((F(l), F(r)), F(v)) for l, r, v in h]
    total = sum((v for _, v in hx), F(0))
    info = {}
    if tgt['kind'] == 'count':
        n = tgt['n']
        out = run_rebin(h, n)
        cls = [(F(i.left), F(i.right)) for i in out.index]
        vals = [float(v) for v in out.values]
        if len(cls) != (n if h else 0):
            fails.append(('rebin to n classes does not give n classes', (n, len(cls))))
        elif not close(sum(vals), float(total)):
            fails.append(('rebin_histogram to n classes does not conserve the total', (float(total), sum(vals))))
        elif not all(close(a, b) for a, b in zip(vals, o_rebin(hx, cls))):
            fails.append(('rebin_histogram: class contents are not the overlap-proportional shares', (vals, [float(x) for x in o_rebin(hx, cls)])))
        terms.append('check_rebin_int %s %s %s %s' % (hist_lit(h), nlit(n), ivls(cls), ql(vals)))
        return fails, terms[0], True, info
    b = [(F(l), F(r)) for l, r in tgt['ivs']]
    covers = not hx or (bool(b) and min(l for l, _ in b) <= min(i[0] for i, _ in hx) and max(i[1] for i, _ in hx) <= max(r for _, r in b))
    spec_ok = o_binning_ok(b)
    info = {'binning_len': len(b), 'spec_ok': spec_ok, 'covers': covers}
    try:
        out = run_rebin(h, make_binning(tgt['ivs']))
        vals = [float(v) for v in out.values]
        got_cls = [(F(i.left), F(i.right)) for i in out.index]
    except (ValueError, TypeError) as e:
        vals = None
        err = repr(e)
    if vals is None:
        if spec_ok:
            fails.append((W_REBIN_SINGLE, err))
        if len(b) != 1:
            terms.append('check_binning %s false' % ivls(b))
        return fails, ' && '.join(terms) if terms else None, False, info
    if len(b) != 1:
        terms.append('check_binning %s true' % ivls(b))
    if not spec_ok:
        # an invalid binning went through: cycles are lost or counted twice without an error
        if not close(sum(vals), float(total)):
            fails.append(('rebin_histogram accepts a binning with gaps/overlaps/decreasing classes and loses the total', (float(total), sum(vals))))
        return fails, ' && '.join(terms), False, info
    if got_cls != b:
        fails.append(('rebin_histogram result is not indexed by the target binning', None))
    exp = o_rebin(hx, b)
    if covers and not close(sum(vals), float(total)):
        fails.append(('rebin_histogram does not conserve the total for a gap-free covering binning', (float(total), sum(vals))))
    elif not all(close(a, e) for a, e in zip(vals, exp)):
        fails.append(('rebin_histogram: class contents are not the overlap-proportional shares', (vals, [float(x) for x in exp])))
    terms.append('check_rebin %s %s (Some %s)' % (hist_lit(h), ivls(b), ql(vals)))
    if case.get('nan_default') and hx:          # (an empty histogram gives zeros also with nan_default: the code's own special case)
        outn = run_rebin(h, make_binning(tgt['ivs']), nan_default=True)
        for t, v, e in zip(b, outn.values, exp):
            empty = not any(o_overlaps(i, t) for i, _ in hx)
            if empty != bool(np.isnan(v)) or (not empty and not close(v, e)):
                fails.append(('rebin_histogram(nan_default): NaN exactly for classes without source', (float(t[0]), float(t[1]), float(v))))
    return fails, ' && '.join(terms), covers and len(b) >= 2 and len(h) >= 2, info


def gen_chain(rng, lo=-4.0, kmax=6, den=None):
    k = rng.randint(1, kmax)
    e = [lo]
    for _ in range(k):
        e.append(e[-1] + rng.choice([0.25, 0.5, 1.0, 1.5, 2.0, 3.0] if den is None else [1.0 / den, 2.0 / den, 3.0 / den]))
    return e


def gen_hist(rng, gappy=0.25):
    """source histogram: mostly a gap-free chain, sometimes with gaps, unordered or overlapping classes"""
    e = gen_chain(rng, lo=dy(rng, -4, 4))
    ivs = breaks(e)
    if rng.random() < gappy and len(ivs) > 1:
        ivs.pop(rng.randrange(len(ivs)))
    if rng.random() < 0.1:
        rng.shuffle(ivs)
    if rng.random() < 0.08:
        l = ivs[0][0]
        ivs.append((l + 0.25, l + 1.25))
    return [(l, r, float(rng.choice([0, 1, 2, 3, 5, 7, 10, 0.5, 2.5, 1000]))) for l, r in ivs]


def gen_rebin_case(rng):
    h = gen_hist(rng)
    lo, hi = min(l for l, _, _ in h), max(r for _, r, _ in h)
    if rng.random() < 0.04:
        h = []                      # an empty histogram re-bins to zeros
    r = rng.random()
    if r < 0.12:
        return {'rel': 'rebin', 'hist': h, 'target': {'kind': 'count', 'n': rng.choice([1, 2, 3, 4, 5, 8])}}
    if r < 0.62:      # valid covering binning, irregular, possibly a single class
        k = rng.choice([1, 1, 2, 3, 4, 5, 7])
        inner = sorted({round(rng.uniform(lo, hi) * rng.choice([4, 8, 10])) / rng.choice([4, 8, 10]) for _ in range(k - 1)})
        e = [lo - rng.choice([0, 0, 0.5, 2.0])] + [x for x in inner if lo < x < hi] + [hi + rng.choice([0, 0, 0.25, 3.0])]
        if rng.random() < 0.3:          # classes beside the source that merely touch it
            e = sorted(set([lo - 1.0, lo] + e + [hi, hi + 0.5]))
        ivs = breaks(e)
    elif r < 0.75:    # same binning / refinement of the source classes
        pts = sorted({x for l, rr, _ in h for x in (l, rr)} | {lo + (hi - lo) * rng.random() for _ in range(rng.randint(0, 3))})
        ivs = breaks(pts)
    elif r < 0.85:    # not covering
        e = gen_chain(rng, lo=lo + rng.choice([-1.0, 0.5, 1.0]), kmax=3)
        ivs = breaks(e)
    else:             # invalid: gaps, overlaps, decreasing, duplicates
        e = gen_chain(rng, lo=lo, kmax=5)
        ivs = breaks(e)
        m = rng.choice(['gap', 'reverse', 'overlap', 'dup', 'empty', 'swap'])
        if m == 'gap' and len(ivs) > 2:
            ivs.pop(rng.randrange(1, len(ivs) - 1))
        elif m == 'reverse':
            ivs = ivs[::-1]
        elif m == 'overlap':
            ivs = [(l, rr + 0.25) for l, rr in ivs]
        elif m == 'dup':
            ivs = ivs + ivs[-1:]
        elif m == 'empty':
            ivs = []
        elif m == 'swap' and len(ivs) > 1:
            ivs[0], ivs[-1] = ivs[-1], ivs[0]
    return {'rel': 'rebin', 'hist': h, 'target': {'kind': 'intervals', 'ivs': [list(i) for i in ivs]}, 'nan_default': rng.random() < 0.3}


def rel_rebin_chain(case):
    """identity for the same binning and composition through a refinement (and that general composition is NOT required)"""
    from pylife.utils.histogram import rebin_histogram
    e0, vals, e1, e2 = case['edges'], case['values'], case['mid'], case['final']
    h = [(e0[i], e0[i + 1], vals[i]) for i in range(len(vals))]
    fails = []
    s = make_hist(h)
    with warnings.catch_warnings():
        warnings.simplefilter('ignore')
        if len(h) >= 2:
            same = rebin_histogram(s, s.index)
            if [float(v) for v in same.values] != [float(v) for v in s.values] or not same.index.equals(s.index):
                fails.append(('rebin_histogram to the same binning is not the identity', ([float(v) for v in same.values],)))
        b1, b2 = make_binning(breaks(e1)), make_binning(breaks(e2))
        if len(b1) >= 2 and len(b2) >= 2:
            direct = rebin_histogram(s, b2)
            via = rebin_histogram(rebin_histogram(s, b1), b2)
            if case['refines'] and not all(close(a, b) for a, b in zip(direct.values, via.values)):
                fails.append(('rebin_histogram does not compose through a refinement', ([float(v) for v in direct.values], [float(v) for v in via.values])))
            if not close(via.values.sum(), s.values.sum()):
                fails.append(('two-step rebin_histogram does not conserve the total', (float(via.values.sum()), float(s.values.sum()))))
    return fails, None, case['refines'] and len(e1) > len(e0)


def gen_rebin_chain_case(rng):
    e0 = gen_chain(rng, lo=dy(rng, -4, 4))
    vals = [float(rng.choice([0, 1, 2, 3, 5, 7, 10, 0.5, 1000])) for _ in e0[:-1]]
    refines = rng.random() < 0.7
    if refines:
        extra = {e0[0] + (e0[-1] - e0[0]) * rng.random() for _ in range(rng.randint(0, 5))}
        e1 = sorted(set(e0) | extra)
        if rng.random() < 0.5:
            e1 = [e1[0] - 1.0] + e1 + [e1[-1] + 0.5]
    else:
        e1 = [e0[0]] + sorted({e0[0] + (e0[-1] - e0[0]) * rng.random() for _ in range(rng.randint(1, 4))}) + [e0[-1]]
        e1 = sorted(set(e1))
    e2 = sorted({e0[0], e0[-1]} | {e0[0] + (e0[-1] - e0[0]) * rng.random() for _ in range(rng.randint(1, 4))})
    return {'rel': 'rebin_chain', 'edges': e0, 'values': vals, 'mid': e1, 'final': e2, 'refines': refines}


def rel_rebin2d(case):
    """a range/mean (or from/to) histogram re-binned along both class levels keeps its total"""
    from pylife.utils.histogram import rebin_histogram
    xe, ye, vals, te = case['x'], case['y'], case['values'], case['target']
    idx = pd.MultiIndex.from_product([pd.IntervalIndex.from_breaks(xe), pd.IntervalIndex.from_breaks(ye)], names=case['names'])
    s = pd.Series([float(v) for v in vals], index=idx, name='cycles')
    with warnings.catch_warnings():
        warnings.simplefilter('ignore')
        if case.get('target_y'):
            tgt = pd.MultiIndex.from_product([pd.IntervalIndex.from_breaks(te), pd.IntervalIndex.from_breaks(case['target_y'])], names=case['names'])
        else:
            tgt = pd.IntervalIndex.from_breaks(te)
        out = rebin_histogram(s, tgt)
    fails = []
    if not close(out.values.sum(), s.values.sum()):
        fails.append(('rebin_histogram of a two-dimensional histogram does not conserve the total', (float(s.values.sum()), float(out.values.sum()))))
    if list(out.index.names) != list(case['names']):
        fails.append(('rebin_histogram of a two-dimensional histogram changes the level order', list(out.index.names)))
    else:
        # exact expectation: rebin along the first level, then along the second (the redistribution is separable)
        X, Y, T = [F(x) for x in xe], [F(y) for y in ye], breaks([F(t) for t in te])
        TY = breaks([F(t) for t in case['target_y']]) if case.get('target_y') else T
        nx, ny = len(X) - 1, len(Y) - 1
        grid = [[F(vals[i * ny + j]) for j in range(ny)] for i in range(nx)]
        step1 = [o_rebin([((X[i], X[i + 1]), grid[i][j]) for i in range(nx)], T) for j in range(ny)]        # [j][a]
        exp = {}
        for a in range(len(T)):
            col = o_rebin([((Y[j], Y[j + 1]), step1[j][a]) for j in range(ny)], TY)
            for bidx in range(len(TY)):
                exp[(T[a], TY[bidx])] = col[bidx]
        for k, v in series_items(out):
            kk = ((F(k[0].left), F(k[0].right)), (F(k[1].left), F(k[1].right)))
            if kk not in exp or not close(v, exp[kk]):
                fails.append(('rebin_histogram of a two-dimensional histogram: class contents are not the overlap-proportional shares',
                              (float(kk[0][0]), float(kk[0][1]), float(kk[1][0]), float(kk[1][1]), v)))
                break
    return fails, None, len(te) > 2


def gen_rebin2d_case(rng):
    xe = gen_chain(rng, lo=0.0, kmax=3)
    ye = gen_chain(rng, lo=dy(rng, -2, 0), kmax=3)
    lo, hi = min(xe[0], ye[0]), max(xe[-1], ye[-1])
    te = sorted({lo, hi} | {lo + (hi - lo) * rng.random() for _ in range(rng.randint(1, 3))})
    vals = [float(rng.choice([0, 1, 2, 3, 5])) for _ in range((len(xe) - 1) * (len(ye) - 1))]
    case = {'rel': 'rebin2d', 'x': xe, 'y': ye, 'values': vals, 'target': te, 'names': rng.choice([['range', 'mean'], ['from', 'to']])}
    if rng.random() < 0.4:          # one binning per class level
        case['target'] = sorted({xe[0], xe[-1]} | {xe[0] + (xe[-1] - xe[0]) * rng.random() for _ in range(rng.randint(1, 3))})
        case['target_y'] = sorted({ye[0], ye[-1]} | {ye[0] + (ye[-1] - ye[0]) * rng.random() for _ in range(rng.randint(1, 3))})
    return case


# ------------------------------------------------------------------------------------------------ relation: rebin_histogram, any index layout
W_ND_TOTAL = 'rebin_histogram of a multi-level histogram does not conserve the total for gap-free covering binnings'
W_ND_CLASSES = 'rebin_histogram of a multi-level histogram: the classes of a level are not the binning requested for the level of that name'
W_ND_SHARES = 'rebin_histogram of a multi-level histogram: class contents are not the overlap-proportional shares'
W_ND_LEVELS = 'rebin_histogram of a multi-level histogram changes the index levels'
W_ND_RAISED = 'rebin_histogram of a multi-level histogram raised for a valid target binning'
W_ND_ORDER = 'rebin_histogram depends on the order in which the target levels are listed'


def nd_source(case):
    """the source histogram: interval levels case['names'] (+ optionally a non-interval level) in the stated level order, rows as listed"""
    names, rows, extra = case['names'], case['rows'], case.get('extra')
    arrays = [pd.IntervalIndex.from_tuples([tuple(map(float, r[1][d])) for r in rows]) for d in range(len(names))]
    lvl = list(names)
    if extra:
        pos = min(int(extra['pos']), len(arrays))
        arrays.insert(pos, pd.Index([r[0] for r in rows], name=extra['name']))
        lvl.insert(pos, extra['name'])
    return pd.Series([float(r[2]) for r in rows], index=pd.MultiIndex.from_arrays(arrays, names=lvl), name='cycles'), lvl


def nd_target(tgt):
    I = pd.IntervalIndex.from_breaks
    if tgt['kind'] == 'single':
        return I([float(x) for x in tgt['edges']])
    if tgt['kind'] == 'count':
        return int(tgt['n'])
    order = tgt['order']
    mi = pd.MultiIndex.from_product([I([float(x) for x in tgt['edges'][nm]]) for nm in order], names=order)
    if tgt.get('rows') is not None:          # the same classes, built from tuples in another row order
        mi = pd.MultiIndex.from_tuples([mi[i] for i in tgt['rows']], names=order)
    return mi


def key_lit(k):
    return '[' + '; '.join(ivl(i) for i in k) + ']'


def rel_rebin_nd(case):
    """rebin_histogram on a MultiIndex histogram: every interval level is re-binned to the binning the target gives for the level OF THAT
    NAME, whatever the order of the levels in the source and in the target, extra non-interval levels are kept.  Exact expectation: the
    redistribution is separable, contents = sum over the source classes of value * product over the levels of the overlap share."""
    from pylife.utils.histogram import rebin_histogram
    names, rows, extra, tgt = case['names'], case['rows'], case.get('extra'), case['target']
    s, lvl = nd_source(case)
    info = {'levels': lvl, 'target_kind': tgt['kind'], 'target_order': tgt.get('order')}
    fails = []
    with warnings.catch_warnings():
        warnings.simplefilter('ignore')
        try:
            out = rebin_histogram(s, nd_target(tgt))
        except Exception as e:
            return [(W_ND_RAISED, repr(e))], None, False, info
    if list(out.index.names) != lvl:
        return [(W_ND_LEVELS, (list(out.index.names), lvl))], None, False, info
    src = {}
    for r in rows:
        src.setdefault(r[0], []).append((tuple((F(i[0]), F(i[1])) for i in r[1]), F(r[2])))
    span = [(min(F(r[1][d][0]) for r in rows), max(F(r[1][d][1]) for r in rows)) for d in range(len(names))]
    if tgt['kind'] == 'count':
        want = [breaks([lo + F(i, tgt['n']) * (hi - lo) for i in range(tgt['n'] + 1)]) for lo, hi in span]
    elif tgt['kind'] == 'single':
        want = [breaks([F(x) for x in tgt['edges']])] * len(names)
    else:
        want = [breaks([F(x) for x in tgt['edges'][nm]]) for nm in names]
    covers = all(w[0][0] <= lo and hi <= w[-1][1] for w, (lo, hi) in zip(want, span))
    info['covers'] = covers
    got = {}
    for k, v in zip(out.index, out.values):
        k = dict(zip(lvl, k))
        got.setdefault(k[extra['name']] if extra else None, []).append((tuple((F(k[nm].left), F(k[nm].right)) for nm in names), float(v)))
    if sorted(got, key=repr) != sorted(src, key=repr):
        return [(W_ND_LEVELS, ('groups', sorted(got, key=repr), sorted(src, key=repr)))], None, False, info
    terms = []
    for g, h in src.items():
        o = got[g]
        bad_cls = [(names[d], (float(k[d][0]), float(k[d][1]))) for k, _ in o for d in range(len(names))
                   if not any(close(k[d][0], w[0]) and close(k[d][1], w[1]) for w in want[d])]
        ncls, nsrc = 1, 1
        for d, w in enumerate(want):
            ncls *= len(w)
            nsrc *= len({k[d] for k, _ in h})
        full = len(h) == len({k for k, _ in h}) == nsrc          # the source lists the complete product of its classes
        if bad_cls or len({k for k, _ in o}) != len(o) or (full and len(o) != ncls):
            fails.append((W_ND_CLASSES, {'group': g, 'unrequested': bad_cls[:3], 'classes': len(o), 'requested_classes': ncls,
                                         'requested': {nm: [float(w[0][0])] + [float(x[1]) for x in w] for nm, w in zip(names, want)}}))
            continue
        total, tot_out = sum((v for _, v in h), F(0)), sum(v for _, v in o)
        if covers and not close(tot_out, float(total)):
            fails.append((W_ND_TOTAL, {'group': g, 'total': float(total), 'rebinned_total': tot_out}))
            continue
        for k, v in o:
            e = F(0)
            for sk, sv in h:
                wgt = sv
                for d in range(len(names)):
                    if not o_overlaps(sk[d], k[d]):
                        wgt = F(0)
                        break
                    wgt *= (min(k[d][1], sk[d][1]) - max(k[d][0], sk[d][0])) / (sk[d][1] - sk[d][0])
                e += wgt
            if not close(v, e):
                fails.append((W_ND_SHARES, {'group': g, 'class': [[float(x) for x in i] for i in k], 'content': v, 'expected': float(e)}))
                break
        terms.append('check_rebin_nd [%s] [%s]' % ('; '.join('(%s, %s)' % (key_lit(k), q(v)) for k, v in h),
                                                   '; '.join('(%s, %s)' % (key_lit(k), q(v)) for k, v in o)))
    # -- the same target described with its levels in the source's own order gives the same histogram
    if tgt['kind'] == 'multi' and not fails:
        with warnings.catch_warnings():
            warnings.simplefilter('ignore')
            ref = rebin_histogram(s, nd_target({'kind': 'multi', 'order': list(names), 'edges': tgt['edges']}))
        a, b = sorted(zip(map(repr, out.index), out.values)), sorted(zip(map(repr, ref.index), ref.values))
        if [x for x, _ in a] != [x for x, _ in b] or not all(close(x[1], y[1]) for x, y in zip(a, b)):
            fails.append((W_ND_ORDER, {'target_order': tgt['order'], 'levels': lvl}))
    nontriv = (tgt['kind'] == 'multi' and covers and [nm for nm in tgt['order']] != list(names)
               and len({json.dumps(tgt['edges'][nm]) for nm in names}) == len(names))
    return fails, ' && '.join(terms) if terms else None, nontriv, info


def gen_rebin_nd_case(rng):
    nd = rng.choice([2, 2, 2, 3])
    names = list(rng.choice([['range', 'mean'], ['mean', 'range'], ['from', 'to'], ['to', 'from']])) + (['temperature'] if nd == 3 else [])
    edges = []
    for nm in names:
        edges.append(gen_chain(rng, lo=0.0 if nm == 'range' else dy(rng, -4, 2), kmax=3 if nd == 2 else 2))
    keys = [[]]
    for e in edges:
        keys = [k + [list(i)] for k in keys for i in breaks(e)]
    extra = None
    groups = [None]
    if rng.random() < 0.3:
        extra = {'name': 'element_id', 'pos': rng.choice([0, 0, 1, nd])}
        groups = [10, 20]
    rows = [[g, k, float(rng.choice([0, 1, 2, 3, 5, 7, 0.5, 1000]))] for g in groups for k in keys]
    r = rng.random()
    sparse = False
    if r < 0.3:
        rng.shuffle(rows)                                   # rows not in product order
    elif r < 0.45 and len(rows) > 2:
        rows = [x for x in rows if rng.random() < 0.7] or rows[:1]      # a histogram that does not list its empty classes
        sparse = True
    span = {nm: (min(x[1][d][0] for x in rows), max(x[1][d][1] for x in rows)) for d, nm in enumerate(names)}
    r = rng.random()
    if r < 0.1 and not sparse:
        tgt = {'kind': 'count', 'n': rng.choice([1, 2, 3, 5])}
    elif r < 0.2:
        lo, hi = min(v[0] for v in span.values()), max(v[1] for v in span.values())
        tgt = {'kind': 'single', 'edges': sorted({lo, hi} | {lo + (hi - lo) * rng.random() for _ in range(rng.randint(1, 3))})}
    else:
        te = {}
        for nm in names:
            lo, hi = span[nm]
            lo, hi = lo - rng.choice([0, 0, 0.5]), hi + rng.choice([0, 0, 0.25, 2.0])
            if rng.random() < 0.1:
                lo += 0.125                                  # does not cover: contents are still the shares
            k = rng.choice([0, 1, 2, 3, 4])                 # (k = 0: a single class)
            te[nm] = sorted({lo, hi} | {round(lo + (hi - lo) * rng.random(), rng.choice([1, 2, 6])) for _ in range(k)})
            te[nm] = [x for x in te[nm] if lo <= x <= hi]
        order = list(names)
        if rng.random() < 0.6:
            while order == list(names):
                rng.shuffle(order)
        tgt = {'kind': 'multi', 'order': order, 'edges': te}
        if rng.random() < 0.25:
            n = 1
            for nm in names:
                n *= len(te[nm]) - 1
            tgt['rows'] = list(range(n))
            rng.shuffle(tgt['rows'])
    case = {'rel': 'rebin_nd', 'names': names, 'rows': rows, 'target': tgt}
    if extra:
        case['extra'] = extra
    return case


# ------------------------------------------------------------------------------------------------ relation: combine_histogram
def rel_combine(case):
    from pylife.utils.histogram import combine_histogram
    hs = case['hists']
    dim = case['dim']
    series = []
    for h in hs:
        if dim == 1:
            idx = pd.IntervalIndex.from_tuples([tuple(map(float, k[0])) for k, _ in h]) if h else pd.IntervalIndex.from_tuples([])
        else:
            idx = pd.MultiIndex.from_arrays([pd.IntervalIndex.from_tuples([tuple(map(float, k[0])) for k, _ in h]),
                                             pd.IntervalIndex.from_tuples([tuple(map(float, k[1])) for k, _ in h])], names=['range', 'mean'])
        if dim == 2 and case.get('swapped') and case['swapped'][len(series)]:
            idx = idx.swaplevel(0, 1)          # this member lists its levels as (mean, range)
        series.append(pd.Series([float(v) for _, v in h], index=idx, dtype=float))
    out = combine_histogram(series)
    fails = []
    total = sum(float(v) for h in hs for _, v in h)
    if not close(out.values.sum() if len(out) else 0.0, total):
        fails.append(('combine_histogram(sum) does not conserve the grand total', (total, float(out.values.sum()))))
    if dim == 2 and case.get('swapped') and len(set(case['swapped'])) == 2:
        # members with differently ordered levels: combine_histogram accepts them (it compares the SET of level names) and joins them
        # by position; the property only demands the grand total here (see notes/build/C14.md, Observations)
        return fails, None, False
    if dim == 2 and len(out) and list(out.index.names) == ['mean', 'range']:
        out = out.swaplevel(0, 1)
    exp = {}
    for h in hs:
        for k, v in h:
            kk = tuple((F(i[0]), F(i[1])) for i in k)
            exp[kk] = exp.get(kk, F(0)) + F(v)
    items = []
    for k, v in series_items(out):
        if dim == 1:
            k = (k[0],)
        items.append((tuple((F(i.left), F(i.right)) for i in k), v))
    if sorted(k for k, _ in items) != sorted(exp) or not all(close(v, exp[k]) for k, v in items):
        fails.append(('combine_histogram(sum): classes are not the union of the classes with summed contents', [float(v) for _, v in items][:8]))

    def keylit(k):
        return '[' + '; '.join(ivl(i) for i in k) + ']'
    hl = '[' + '; '.join('[' + '; '.join('(%s, %s)' % (keylit(k), q(v)) for k, v in h) + ']' for h in hs) + ']'
    ol = '[' + '; '.join('(%s, %s)' % (keylit(k), q(v)) for k, v in items) + ']'
    return fails, 'check_combine %s %s' % (hl, ol), len(exp) < sum(len(h) for h in hs) and len(hs) >= 2


def gen_combine_case(rng):
    dim = rng.choice([1, 1, 2])
    base = gen_chain(rng, lo=0.0, kmax=5)
    pool = breaks(base) + [(base[0], base[0] + 0.125)]
    hs = []
    for _ in range(rng.randint(1, 4)):
        ks = set()
        for _ in range(rng.randint(0 if dim == 1 else 1, 5)):
            ks.add((rng.choice(pool),) if dim == 1 else (rng.choice(pool), rng.choice(pool)))
        hs.append([[[list(i) for i in k], float(rng.choice([0, 1, 2, 3, 5, 0.5, 12, 1000]))] for k in sorted(ks)])
    if dim == 2 or rng.random() < 0.5:
        hs = [h for h in hs if h] or [[[[list(pool[0])] * dim, 1.0]]]
    case = {'rel': 'combine', 'hists': hs, 'dim': dim}
    if dim == 2 and rng.random() < 0.3:
        case['swapped'] = [rng.random() < 0.5 for _ in hs]
    return case


# ------------------------------------------------------------------------------------------------ dispatch
RELS = {'collective': rel_collective, 'histogram': rel_histogram, 'recorder': rel_recorder, 'matrix': rel_matrix,
        'rebin': rel_rebin, 'rebin_chain': rel_rebin_chain, 'rebin2d': rel_rebin2d, 'rebin_nd': rel_rebin_nd, 'combine': rel_combine}
GENS = {'collective': gen_collective_case, 'histogram': gen_histogram_case, 'recorder': gen_recorder_case, 'matrix': gen_matrix_case,
        'rebin': gen_rebin_case, 'rebin_chain': gen_rebin_chain_case, 'rebin2d': gen_rebin2d_case, 'rebin_nd': gen_rebin_nd_case,
        'combine': gen_combine_case}


def evaluate(case):
    """-> (failures [(what, detail)], coq term or None, nontrivial, info dict)"""
    with warnings.catch_warnings():
        warnings.simplefilter('ignore')
        r = RELS[case['rel']](case)
    return r if len(r) == 4 else (r[0], r[1], r[2], {})


def register_classes(res):
    res.classes['rebin_single_class_binning'] = lambda d: (d.get('case', {}).get('rel') == 'rebin' and d.get('info', {}).get('binning_len') == 1)
    res.classes['histogram2d_single_class'] = lambda d: (d.get('case', {}).get('rel') == 'histogram' and d.get('info', {}).get('dim') == 2
                                                          and d.get('info', {}).get('single_class') is True)
    res.classes['histogram2d_count_bins_along_axis'] = lambda d: (d.get('case', {}).get('rel') == 'histogram' and d.get('info', {}).get('dim') == 2
                                                                   and d.get('info', {}).get('bins_kind') == 'count' and d.get('info', {}).get('axis') is not None
                                                                   and 'stack' in str(d.get('detail')))
    res.classes['histogram_axis_is_only_level'] = lambda d: (d.get('case', {}).get('rel') == 'histogram' and d.get('info', {}).get('axis') is not None
                                                              and d.get('info', {}).get('extra_levels') == 0 and 'No group keys' in str(d.get('detail')))
    res.classes['collective_scalar_operand'] = lambda d: (d.get('case', {}).get('rel') == 'collective' and d.get('info', {}).get('scalar_operand') is True)
    res.classes['collective_with_cycles_column'] = lambda d: (d.get('case', {}).get('rel') == 'histogram' and d.get('info', {}).get('weighted') is True)


def jsonable(x):
    return json.loads(json.dumps(x, default=lambda o: float(o) if isinstance(o, (F, np.floating)) else str(o)))


def corpus_cases():
    d = os.path.join(common.CORPUS, 'C14')
    out = []
    if os.path.isdir(d):
        for f in sorted(os.listdir(d)):
            if f.endswith('.json'):
                out.append(json.load(open(os.path.join(d, f)))['case'])
    return out


def run(res):
    quick = res.tier == 'quick'
    rng = res.rng
    register_classes(res)
    res.trusted += ['hand-written Gallina model coq/theories/Stress/{Collective,Histogram,Rebin}.v, tied by the correspondence check (this harness, '
                    'coq/theories/Stress/C14Check.v comparison functions)',
                    'exact conversion float -> rational of every input and observation (fractions.Fraction)',
                    'pandas IntervalIndex / groupby / broadcast and numpy.histogram(2d) internals: only through the correspondence']
    res.assumptions += ['loads, edges of the correspondence cases are dyadic (quarter steps) so that |from-to|, (from+to)/2, products with the dyadic '
                        'scale factors are exact in binary floating point; non-dyadic class edges enter as the exact rational of the float',
                        'histogram classes are right-closed pandas intervals (interval_range / from_breaks default); source classes of a re-binning '
                        'have positive length; no NaN class contents',
                        'Series operands of scale/shift are indexed by one level of the collective (general broadcasting is C13)']
    res.cov['rule'] = ('9 seeded case families (collective accessors with scale/shift and scalar / per-level Series operands over RangeIndex, single and '
                       '2-3 level MultiIndex with the cycle axis at any level position, from/to and range/mean with the columns in either order, optional '
                       'cycles column; range and range/mean histograms with bins = count / edges / '
                       'IntervalIndex / IntervalArray / single class / [x, y] pair, with and without group axis; recorder from/to histogram; LoadHistogram '
                       'class accessors with class location and scale/shift; rebin_histogram to irregular, single-class, refining, non-covering and invalid '
                       'binnings and bins = n, nan_default; same-binning identity and two-step composition; two-dimensional re-binning; re-binning of 2-3 class '
                       'levels in any level order to a MultiIndex target with its own level order and one binning per level name, extra non-interval level '
                       'at any position, shuffled / incomplete source rows; combine_histogram, also of members with differently ordered levels). '
                       'non-trivial = collective with both loop orientations / histogram with >= 2 classes and a cycle exactly on a class edge / '
                       're-binning of >= 2 classes to >= 2 covering classes / composition through a strict refinement / multi-level re-binning to a covering '
                       'target that lists its levels in another order than the histogram with pairwise different binnings / combine with a shared class; '
                       'counted distinct by case content')
    common.standard_proof_stage(res, 'C14', extra_targets=['theories/Stress/C14Check.vo'])

    counts = dict(collective=150, histogram=220, recorder=50, matrix=90, rebin=260, rebin_chain=60, rebin2d=25, rebin_nd=60, combine=60)
    if not quick:
        counts = {k: v * 8 for k, v in counts.items()}
    cases = corpus_cases()
    for fam, n in counts.items():
        for _ in range(n):
            cases.append(GENS[fam](rng))
    terms, term_case, nontriv, fam_hist, rejected = [], [], set(), {}, 0
    n_viol, kinds = 0, {}
    for case in cases:
        fam_hist[case['rel']] = fam_hist.get(case['rel'], 0) + 1
        try:
            fails, term, nt, info = evaluate(case)
        except Exception as e:
            fails, term, nt, info = [('the implementation raised on a valid input', repr(e))], None, False, {}
        for what, detail in fails[:3]:
            kinds[what] = kinds.get(what, 0) + 1
            if res.violation(what, case=jsonable(case), info=jsonable(info), detail=jsonable(detail)):
                n_viol += 1
        if term:
            terms.append(term)
            term_case.append(case)
        if nt:
            nontriv.add(json.dumps(jsonable(case), sort_keys=True))
    res.oblige('property relations hold on the implementation for %d cases (known findings apart)' % len(cases), n_viol == 0,
               '%d relation failures outside the known-finding classes' % n_viol)
    bad, log = common.coq_compare('C14', REQ, terms, shard=max(40, len(terms) // (common.NCPU * 2) + 1))
    # a model/implementation disagreement on a case inside a known-finding class was already reported through the relations
    res.oblige('correspondence model = implementation on %d cases' % len(terms), not bad,
               'disagreeing cases: %s\n%s' % (json.dumps([jsonable(term_case[i]) for i in bad[:3]]), log[-1500:]))
    res.add_cases(len(cases), nontrivial=len(nontriv), validated=len(terms))
    res.cov['case_families'] = fam_hist
    res.cov['relation_failures_by_kind (including known findings)'] = kinds
    res.cov['correspondence_terms'] = len(terms)
    res.cov['correspondence_disagreements'] = len(bad)
    res.cov['scale_shift_calls_that_wrote_into_the_callers_frame (outside C14, see notes/build/C14.md)'] = MUTATED[0]
    for fam in counts:
        for case in cases:
            if case['rel'] == fam:
                res.sample(jsonable(case))
                break
    if bad and n_viol == 0:
        # the model no longer describes the code although no listed relation failed on the sampled cases:
        # report the first disagreeing case as the failing input of "the implementation realises the verified model"
        case = term_case[bad[0]]
        res.violation('implementation deviates from the verified model (%s)' % case['rel'], case=jsonable(case), info={}, detail=terms[bad[0]][:1500])

    # ---- E known findings
    def still_fails(entry):
        fails, _, _, info = evaluate(entry['witness']['case'])
        return any(w == entry['what'] for w, _ in fails)
    res.replay_known(still_fails)


def replay(res, rp):
    register_classes(res)
    v = rp.get('violation', {})
    if 'case' in v:
        fails, term, nt, info = evaluate(v['case'])
        print('replay:', v['case']['rel'], fails[:3])
        ok = True
        for what, detail in fails:
            if res.violation(what, case=jsonable(v['case']), info=jsonable(info), detail=jsonable(detail)):
                ok = False
        if term:
            bad, log = common.coq_compare('C14_replay', REQ, [term])
            if bad:
                ok = False
                res.violation('implementation deviates from the verified model (%s)' % v['case']['rel'], case=jsonable(v['case']), info={}, detail=term[:1500])
        res.add_cases(1, 0)
        res.oblige('replayed input satisfies the property', ok)
    else:
        run(res)
    return res.finish()
