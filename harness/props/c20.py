"""C20 -- VMAP export followed by import returns the same mesh and fields; failed exports leave nothing behind.

Model: coq/theories/Vmap/Model.v (hand-written: frames as row lists, the HDF5 file as a finite map, add_* calls
as step functions with an oracle failure point, the importer as a state machine).  Theorems: coq/theories/Vmap/Thm.v.
Tie: correspondence through real HDF5 files (vm_compute evaluates the model on the same exporter calls and
compares with the raw file content and with the frames VMAPImport returned), fault injection by patching
h5py.Group.create_group / create_dataset.  On every run the property's own relations (round trip = stably
element-sorted input, roll-back, repeatability, set filters) are evaluated on the implementation."""
import copy
import json
import os
import shutil
import tempfile

import common
import vmapx

MANIFEST = dict(
    text='Theorems (props/C20.v) about a hand-written Gallina model of VMAPExport.add_geometry / add_variable / add_node_set / '
         'add_element_set (groupby layouts, int32 storage by saturation resp. wrap-around, element-type table, the try/except '
         'roll-back with an oracle failure point at every h5py create_group / create_dataset call) and of VMAPImport (mesh index '
         'from connectivity, node / element-nodal variable index, joins, geometry sets, importer state machine): round trip of '
         'coordinates, nodal and element-nodal variables = the input rows stably sorted by element id (unbounded, under the hypotheses '
         'the proof forces: ids in int32, distinct (element,node) pairs, node data consistent, and for the code as it is rows grouped '
         'by element and one element size; for the repaired variant without the last two), refutations by witness for interleaved '
         'rows, ids beyond int32 and mixed element types, element order by id with node order kept, importer repeatability '
         '(no state leaks through make_mesh), set filters return exactly the members, a failed add_* call leaves geometry and '
         'variable content unchanged for EVERY failure point.  The model is tied to the code on every run by a correspondence '
         'check through real HDF5 files (raw file content, call outcomes, imported frames, set listings).',
    note=common.TB_NOTE + 'all C20 theorems are closed under the global context (no axioms). Model is hand-written: the correspondence '
         'harness (generators, fault injector, HDF5 dump, Coq literals) is trusted; h5py / HDF5 / pandas are not modelled beyond the '
         'layouts and error cases the correspondence check exercises (int32 conversion, join on unique keys); floats are opaque '
         'payloads (bit patterns), only NaN-ness and == are looked at; many-to-many joins of frames with repeated (element,node) '
         'pairs and empty frames are outside the model.',
    technique='Coq proof (list induction over a hand-written Gallina model of the HDF5 layout and roll-back) + vm_compute correspondence through real VMAP files with fault injection',
    design='6/C20')


# --------------------------------------------------------------------------- known findings: classes and witnesses

def _feat(d, k):
    return bool(d.get('features', {}).get(k))


def register_classes(res):
    res.classes['mixed_element_sizes'] = lambda d: _feat(d, 'mixed_element_sizes') and 'inhomogeneous' in str(d.get('error'))
    res.classes['flat_geometry_after_3d_geometry'] = lambda d: _feat(d, 'flat_geometry_after_3d_geometry') and '(3, 3)' in str(d.get('error'))
    res.classes['interleaved_variable_rows'] = lambda d: (_feat(d, 'interleaved_variable_rows') and not _feat(d, 'ids_outside_int32')
                                                          and str(d.get('difference', '')).startswith('values of joined block'))
    res.classes['ids_outside_int32'] = lambda d: _feat(d, 'ids_outside_int32') and not _feat(d, 'interleaved_variable_rows')
    res.classes['ids_outside_int32_nonunique'] = lambda d: _feat(d, 'ids_outside_int32') and 'non-unique' in str(d.get('error'))
    res.classes['element_id_outside_int32'] = lambda d: _feat(d, 'element_ids_outside_int32') and 'out of bounds for int32' in str(d.get('error'))
    res.classes['frame_without_z'] = lambda d: _feat(d, 'frame_without_z') and 'Shape of passed values' in str(d.get('error'))
    res.classes['set_name_decode'] = lambda d: "'str' object has no attribute 'decode'" in str(d.get('error'))


def observe(scn, workdir, tag='s'):
    obs = vmapx.run_scenario(scn, workdir, tag)
    viol = vmapx.check_property(scn, obs)
    return obs, viol


def violation_record(scn, what, detail):
    d = {'features': vmapx.scenario_features(scn), 'scenario': strip(scn)}
    d.update(detail)
    return d


def strip(scn):
    return {k: v for k, v in scn.items() if not k.startswith('_')}


def report(res, scn, viol):
    """pass every violated relation to res.violation; returns the number that were NOT known findings"""
    new = 0
    for what, detail in viol:
        if res.violation(what, **violation_record(scn, what, detail)):
            new += 1
    return new


def shrink(scn, what, workdir):
    """greedy: keep only what is needed for a violation of the same kind"""
    def fails(s):
        try:
            _, v = observe(s, workdir, 'shrink')
        except Exception:
            return False
        return any(w == what for w, _ in v)
    cur = copy.deepcopy(strip(scn))
    for key in ('chains', 'listings', 'ops'):
        i = 0
        while i < len(cur.get(key, [])):
            cand = copy.deepcopy(cur)
            del cand[key][i]
            if fails(cand):
                cur = cand
            else:
                i += 1
    return cur


# --------------------------------------------------------------------------- per-run variant detection

WITNESS_OF_FLAG = {'ragged_ok': 'mixed-element-types', 'regroup': 'interleaved-rows', 'dim_reset': 'dimension-leak',
                   'coords2d_ok': 'frame-without-z', 'sets_ok': 'set-name-decode-filter'}


def witness_still_fails(res, entry, workdir):
    scn = entry['witness']
    _, viol = observe(scn, workdir, 'witness')
    pred = res.classes.get(entry['class'])
    for what, detail in viol:
        if what == entry['what'] and pred is not None and pred(violation_record(scn, what, detail)):
            return True
    return False


def detect_cfg(res, workdir):
    known = {e['id']: e for e in common.known_findings('C20')}
    cfg = {}
    for flag, wid in WITNESS_OF_FLAG.items():
        e = known.get(wid)
        if e is None:
            raise RuntimeError('known_findings.jsonl lacks the witness %s' % wid)
        cfg[flag] = not witness_still_fails(res, e, workdir)
    return cfg


# --------------------------------------------------------------------------- the run

def _work(args):
    i, scn, workdir = args
    try:
        obs = vmapx.run_scenario(scn, workdir, 'w%d' % os.getpid())
        return i, obs, None
    except Exception as e:     # the machinery failed on this scenario
        import traceback
        return i, None, '%r\n%s' % (e, traceback.format_exc()[-1500:])


def run_parallel(scns, workdir):
    import multiprocessing as mp
    ctx = mp.get_context('fork')
    with ctx.Pool(min(12, common.NCPU)) as pool:
        out = pool.map(_work, [(i, s, workdir) for i, s in enumerate(scns)], chunksize=4)
    return out


def corpus_scenarios():
    d = os.path.join(common.CORPUS, 'C20')
    out = []
    if os.path.isdir(d):
        for f in sorted(os.listdir(d)):
            if f.endswith('.json'):
                out.append(json.load(open(os.path.join(d, f))))
    return out


def run(res):
    quick = res.tier == 'quick'
    register_classes(res)
    res.trusted += ['hand-written Gallina model coq/theories/Vmap/Model.v, tied by the correspondence check (this harness: generators, h5py fault '
                    'injector, raw HDF5 dump, Coq literals)', 'h5py / HDF5 / pandas as libraries (entered only through observed layouts)']
    res.assumptions += ['floats are opaque payloads: the model copies bit patterns; only NaN-ness (GroupBy.first) and == (2D/3D switch) are interpreted',
                        'frames are non-empty and have no repeated (element_id, node_id) pair (many-to-many joins are outside the model)',
                        'node data (coordinates, nodal variables) is the same in every row of a node (a valid mesh frame)',
                        'which of the five repairable defects the tree still has is determined per run from the fixed witnesses of '
                        'known_findings.jsonl; the model variant (cfg) is chosen accordingly and every defect present is reported']
    res.cov['rule'] = ('scenario = 1-3 geometries (2D with constant z / 2D without z / 3D; tri3/6, quad4/8, tet4/10, wedge6/15, hex8/20; 1-5 elements sharing '
                       'nodes; ids small / with gaps / near the int32 limits / negative / beyond int32; rows ascending, descending, shuffled blocks or '
                       'interleaved), 1-3 nodal / element-nodal variables in 1-2 states, 0-3 node / element sets, optional failure injection at every '
                       'h5py create_group/create_dataset call, optional invalid calls (unsupported element size, name clashes, missing column, '
                       'foreign ids); importer chains: full read, variable-first read, set filters, error chains.  Floats include -0.0, inf, '
                       'denormals, NaN.  non-trivial = distinct scenarios with at least one exported geometry and at least one importer chain '
                       'whose frame was compared with the expected frame')
    common.standard_proof_stage(res, 'C20', extra_targets=['theories/Vmap/Run.vo'])
    workdir = tempfile.mkdtemp(prefix='c20-', dir=common.BUILD)
    try:
        _run(res, quick, workdir)
    finally:
        shutil.rmtree(workdir, ignore_errors=True)


def _run(res, quick, workdir):
    rng = res.rng
    cfg = detect_cfg(res, workdir)
    res.cov['model_variant'] = cfg

    scns = corpus_scenarios()
    ncorpus = len(scns)
    n = 160 if quick else 600
    flavours = ['interleaved', 'outside', 'mixed', 'noz', 'dimleak', 'fault', 'invalid', 'plain']
    for k in range(n):
        scns.append(vmapx.gen_scenario(rng, flavours[k] if k < len(flavours) else None))
    results = run_parallel(scns, workdir)

    terms, term_scn, nontriv, hist, unmodelled = [], [], set(), {}, 0
    new_viol = 0
    statuses_hist = {0: 0, 1: 0, 2: 0}
    reported = {}
    for (i, obs, err), scn in zip(results, scns):
        if obs is None:
            res.oblige('scenario %d runs on the implementation' % i, False, err)
            continue
        hist[scn.get('flavour', 'corpus')] = hist.get(scn.get('flavour', 'corpus'), 0) + 1
        for st in obs['statuses']:
            statuses_hist[st] += 1
        viol = vmapx.check_property(scn, obs)
        for what, detail in viol:
            rec = violation_record(scn, what, detail)
            if reported.get(what, 0) >= 3 and not _is_known(res, what, rec):
                continue
            if not _is_known(res, what, rec):
                reported[what] = reported.get(what, 0) + 1
                small = shrink(scn, what, workdir)
                obs2, viol2 = observe(small, workdir, 'shr')
                det2 = [d for w, d in viol2 if w == what]
                rec = violation_record(small, what, det2[0] if det2 else detail)
            if res.violation(what, **rec):
                new_viol += 1
        if vmapx.scenario_features(scn)['duplicate_pairs']:
            unmodelled += 1
        terms.append(vmapx.scenario_term(cfg, scn, obs))
        term_scn.append((scn, obs))
        scn2 = dict(scn)
        scn2['_statuses'] = obs['statuses']
        if any(st == 0 and op['op'] == 'geom' for op, st in zip(scn['ops'], obs['statuses'])) and \
                any(r[0] == 'frame' and vmapx.expected_frame(scn2, ch) is not None for ch, r in zip(scn['chains'], obs['chains'])):
            nontriv.add(json.dumps(strip(scn), sort_keys=True, default=str))
    bad, log = common.coq_compare('C20', vmapx.REQ, terms, shard=max(8, len(terms) // (4 * common.NCPU) + 1), timeout=1500)
    if bad:
        # a shard whose coqc was killed (overloaded machine) counts all its cases as bad: re-evaluate exactly the
        # cases reported bad, in small shards, once; only what is bad again is a disagreement
        again, log = common.coq_compare('C20r', vmapx.REQ, [terms[i] for i in bad], shard=4, timeout=1500)
        bad = [bad[j] for j in again]
    detail = ''
    if bad:
        diag_terms = [vmapx.scenario_term(cfg, term_scn[i][0], term_scn[i][1], fn='scenario_diag') for i in bad[:6]]
        ok, out = common.coq_scratch('C20_diag', 'From Coq Require Import ZArith List Bool.\nImport ListNotations.\n' + '\n'.join(vmapx.REQ) +
                                     '\nEval vm_compute in [' + ';\n'.join(diag_terms) + '].\n', timeout=300)
        detail = ('disagreeing scenarios (index, flavour): %s; diag (1 statuses, 2 file content, 4 importer chains, 8 set listings): %s\nfirst: %s\n%s'
                  % ([(i, term_scn[i][0].get('flavour')) for i in bad[:10]], out.strip()[-300:],
                     json.dumps({'scenario': strip(term_scn[bad[0]][0]), 'observed': _short(term_scn[bad[0]][1])}, default=str)[:2500], log[-800:]))
    res.oblige('correspondence model = implementation on %d scenarios (call outcomes, raw HDF5 content, imported frames, set listings)' % len(terms),
               not bad, detail)
    res.add_cases(len(terms), nontrivial=len(nontriv))
    res.cov['scenario_flavours'] = hist
    res.cov['call_outcomes'] = {'returned': statuses_hist[0], 'VMAPExportError': statuses_hist[1], 'other_exception': statuses_hist[2]}
    res.cov['corpus_scenarios'] = ncorpus
    res.cov['correspondence_disagreements'] = len(bad)
    res.cov['exporter_calls'] = sum(len(s['ops']) for s in scns)
    res.cov['importer_chains'] = sum(len(s['chains']) for s in scns)
    for scn, obs in term_scn[ncorpus + 8:ncorpus + 11]:
        res.sample({'flavour': scn.get('flavour'), 'ops': [{k: v for k, v in o.items() if k != 'cols'} for o in scn['ops']][:8],
                    'rows_of_first_mesh': scn['meshes'][0]['rows'][:12], 'statuses': obs['statuses'][:8]})

    # ---- E: known findings
    res.replay_known(lambda e: witness_still_fails(res, e, workdir))


def _is_known(res, what, rec):
    for e in common.known_findings('C20'):
        if e.get('status') == 'open' and e.get('what') == what:
            pred = res.classes.get(e.get('class'))
            try:
                if pred is not None and pred(dict(rec, what=what)):
                    return True
            except Exception:
                pass
    return False


def _short(obs):
    return {'statuses': obs['statuses'], 'errors': obs['errors'], 'chains': [(r[0], r[1] if r[0] == 'error' else len(r[1])) for r in obs['chains']],
            'listings': obs['listings']}


def replay(res, rp):
    register_classes(res)
    v = rp.get('violation', {})
    scn = v.get('scenario')
    if not scn:
        run(res)
        return res.finish()
    workdir = tempfile.mkdtemp(prefix='c20-replay-', dir=common.BUILD)
    try:
        obs, viol = observe(scn, workdir, 'replay')
        print('replay: exporter call outcomes', obs['statuses'], obs['errors'])
        for what, detail in viol:
            print('replay:', what, json.dumps(detail, default=str)[:600])
            res.violation(what, **violation_record(scn, what, detail))
        res.add_cases(1, 0)
        res.oblige('replayed scenario satisfies the property', not viol, [w for w, _ in viol])
    finally:
        shutil.rmtree(workdir, ignore_errors=True)
    return res.finish()
