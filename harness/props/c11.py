"""C11 -- Miner damage is linear and agrees with the predicted Gassner lifetime.

Model: coq/theories/Strength/C11Model.v (hand-written, collectives as lists of (amplitude, cycles), None = numpy inf);
theorems: coq/theories/Strength/C11.v, stated in coq/props/C11.v.
Tie: per-run interval certificates (kernel-checked) of the model against what fatigue.damage, solidity.*,
gassner_miner_*.{lifetime_multiple, gassner_cycles, gassner, effective_damage_sum}, WoehlerCurve.cycles / miner_* and
LoadHistogram.amplitude return, for collectives / histograms with empty classes at top / bottom / middle.
On every run the property's own relations are evaluated on the implementation (they are the failing-input search)."""
import glob
import json
import math
import os

import numpy as np
import pandas as pd

import cert
import common

MANIFEST = dict(
    text='Theorems (props/C11.v, 27) about a real-valued list model of Fatigue.damage, solidity.haibach/fkm, '
         'MinerElementary/MinerHaibach.lifetime_multiple, MinerBase.gassner_cycles, MinerElementary.gassner, effective_damage_sum and '
         'WoehlerCurve.cycles/miner_*: damage additive / proportional / permutation invariant (member-wise and in the sum); '
         'original <= Haibach <= elementary with the closed form of each member; Gassner cycles give damage exactly one for Miner-Haibach '
         '(max amplitude >= SD, any empty classes) and for Miner elementary when the top class is occupied; with an empty top class the code '
         'gives (S_occupied/S_all)^k1 < 1 (general formula + refutation witness; genuine defect, repair proved correct as gassner_cycles_occ); '
         'for curves with scatter whose native failure probability is not 50 % the Haibach lifetime multiple takes the knee from the native curve '
         'while cycles()/damage() use the curve at 50 %: damage A(native knee)/A(knee at 50 %) (general value + refutation witness 9/10; genuine defect, '
         'with equal knees it reduces to the proved damage one); '
         'solidity in (0,1], A_ele >= 1, fkm^k = haibach; effective damage sum in [0.3,1] with its clipping points. '
         'The model is tied to the implementation on every run by CoqInterval certificates (kernel-checked) on collectives and fixed-bin '
         'histograms (range, range x mean, from-to, DataFrame) with empty classes at top / bottom / middle, at load levels around the knee.',
    note=common.TB_NOTE + 'the list model is hand-written (not translated): its agreement with the code is established per run by interval '
         'certificates on sampled inputs only; float rounding, pandas index alignment / broadcasting over several curves are outside the theorems; '
         'the transformation of a curve with scatter to 50 % failure probability is taken from the implementation (SD, ND of '
         'transform_to_failure_probability(0.5)), not modelled; below the knee point Miner-Haibach Gassner cycles are inf / not '
         'the Haibach life (documented in the source) and are excluded from the damage-one clause.',
    technique='Coq proof over a hand-written real-valued list model + CoqInterval certificates + relations on the implementation',
    design='6/C11')

REQ = ['From Coq Require Import List.', 'Import ListNotations.',
       'From PL Require Import Strength.C11Model Strength.C11Cert.']
WHAT_ELEM = 'Gassner cycles (Miner elementary) do not produce damage one'
WHAT_HAIB = 'Gassner cycles (Miner-Haibach) do not produce damage one'
KINDS = ['range_hist', 'range_mean_hist', 'fromto_hist', 'df_fromto', 'df_rangemean']


# --------------------------------------------------------------------------- building pandas objects from a case

def _pl():
    import pylife.strength.miner as M            # noqa: F401  registers the accessors
    import pylife.strength.fatigue as F          # noqa: F401
    import pylife.strength.solidity as SOL       # noqa: F401
    import pylife.stress.collective as CL        # noqa: F401
    return M, F, SOL


def make_obj(case):
    """The pandas object (Series histogram / DataFrame collective) described by a case."""
    k = case['kind']
    cnt = [float(x) for x in case['counts']]
    if k == 'range_hist':
        idx = pd.IntervalIndex.from_breaks([float(e) for e in case['edges']], name='range')
        return pd.Series(cnt, index=idx, name='cycles', dtype=float)
    if k == 'range_mean_hist':
        r = pd.IntervalIndex.from_breaks([float(e) for e in case['edges']], name='range')
        m = pd.IntervalIndex.from_breaks([float(e) for e in case['mean_edges']], name='mean')
        return pd.Series(cnt, index=pd.MultiIndex.from_product([r, m]), name='cycles', dtype=float)
    if k == 'fromto_hist':
        fr = pd.IntervalIndex.from_breaks([float(e) for e in case['edges']], name='from')
        to = pd.IntervalIndex.from_breaks([float(e) for e in case['edges']], name='to')
        return pd.Series(cnt, index=pd.MultiIndex.from_product([fr, to]), name='cycles', dtype=float)
    if k == 'df_fromto':
        d = {'from': [float(x) for x in case['from']], 'to': [float(x) for x in case['to']]}
        if case.get('with_cycles', True):
            d['cycles'] = cnt
        return pd.DataFrame(d)
    if k == 'df_rangemean':
        d = {'range': [float(x) for x in case['range']], 'mean': [float(x) for x in case['mean']]}
        if case.get('with_cycles', True):
            d['cycles'] = cnt
        return pd.DataFrame(d, columns=list(d))
    raise ValueError(k)


def accessor(obj, case):
    if isinstance(obj, pd.DataFrame):
        obj = obj.copy()      # LoadCollective.scale(scalar) multiplies the caller's DataFrame in place (side observation, not C11)
    lc = obj.load_collective
    loc = case.get('location', 'mid')
    if isinstance(obj, pd.Series):
        if loc == 'right':
            lc = lc.use_class_right()
        elif loc == 'left':
            lc = lc.use_class_left()
    f = case.get('scale')
    if f is not None:
        lc = lc.scale(float(f))
        if isinstance(obj, pd.Series):       # scale() returns a fresh accessor: class location has to be chosen again
            if loc == 'right':
                lc = lc.use_class_right()
            elif loc == 'left':
                lc = lc.use_class_left()
    return lc


def subset(obj, idx):
    return obj.iloc[list(idx)]


def times_cycles(obj, lam):
    if isinstance(obj, pd.Series):
        return obj * float(lam)
    o = obj.copy()
    o['cycles'] = (o['cycles'] if 'cycles' in o else 1.0) * float(lam)
    return o


def curve_series(case, **over):
    c = dict(case['curve'])
    c.update(over)
    d = {'k_1': float(c['k_1']), 'ND': float(c['ND']), 'SD': float(c['SD'])}
    if c.get('k_2') is not None:
        d['k_2'] = float(c['k_2'])
    for key in SCATTER_KEYS:                 # scatter / native failure probability (optional keys of a Woehler curve)
        if c.get(key) is not None:
            d[key] = float(c[key])
    return pd.Series(d)


SCATTER_KEYS = ('TN', 'TS', 'failure_probability')


def curve50(case):
    """(SD, ND) of the curve at 50 % failure probability AS THE IMPLEMENTATION REPORTS THEM
    (WoehlerCurve.transform_to_failure_probability(0.5)): this is the curve WoehlerCurve.cycles() and Fatigue.damage()
    evaluate by default.  For a curve without scatter or with native probability 50 % these are the native SD, ND.
    The transformation itself (scipy.stats.norm.ppf, scattering_range_to_std) is not part of C11 and not modelled."""
    _pl()
    t = curve_series(case).woehler.transform_to_failure_probability(0.5)
    return float(np.asarray(t.SD).reshape(-1)[0]), float(np.asarray(t.ND).reshape(-1)[0])


def has_scatter(case):
    return any(case['curve'].get(k) is not None for k in SCATTER_KEYS)


def lm_haibach_ref(amps, cyc, SD, k1):
    """Haibach (2006) 3.21-61 written out with numpy, independent of miner.py: lifetime multiple for knee point SD."""
    a, n = np.asarray(amps, float), np.asarray(cyc, float)
    m = a.max()
    full = a >= SD
    with np.errstate(all='ignore'):
        den = np.sum(n[full] * (a[full] / m) ** k1) + (SD / m) ** (1 - k1) * np.sum(n[~full] * (a[~full] / m) ** (2 * k1 - 1))
        return float(n.sum() / den)


def k2_of(case):
    k2 = case['curve'].get('k_2')
    return math.inf if k2 is None else float(k2)


def members(lc):
    return [float(x) for x in np.asarray(lc.amplitude, float)], [float(x) for x in np.asarray(lc.cycles, float)]


# --------------------------------------------------------------------------- generator

DYADIC_W = [8.0, 10.0, 12.5, 25.0, 50.0, 64.0, 100.0, 37.5]
PATTERNS = ['full', 'empty_top', 'empty_top2', 'empty_bottom', 'empty_middle', 'sparse', 'single', 'noninteger', 'full', 'empty_top']


def counts_pattern(rng, n, pat):
    c = [float(rng.choice([1, 2, 3, 5, 10, 40, 250, 1000, 12000])) for _ in range(n)]
    if pat == 'empty_top' and n >= 2:
        c[-1] = 0.0
    elif pat == 'empty_top2' and n >= 3:
        c[-1] = c[-2] = 0.0
    elif pat == 'empty_bottom' and n >= 2:
        c[0] = 0.0
    elif pat == 'empty_middle' and n >= 3:
        c[rng.randrange(1, n - 1)] = 0.0
    elif pat == 'sparse':
        c = [x if rng.random() < 0.5 else 0.0 for x in c]
        if not any(c):
            c[rng.randrange(n)] = 7.0
    elif pat == 'single':
        j = rng.randrange(n)
        c = [x if i == j else 0.0 for i, x in enumerate(c)]
    elif pat == 'noninteger':
        c = [x * rng.choice([0.5, 0.25, 1.5, 0.1, 2.7]) for x in c]
    return c


def breaks(rng, n, uniform=None):
    start = rng.choice([0.0, 0.0, 10.0, 25.0, 50.0])
    if uniform is None:
        uniform = rng.random() < 0.7
    w = rng.choice(DYADIC_W)
    e = [start]
    for _ in range(n):
        e.append(e[-1] + (w if uniform else rng.choice(DYADIC_W)))
    return e


def gen_case(rng, big=False):
    kind = rng.choice(KINDS + ['range_hist', 'range_hist'])
    pat = rng.choice(PATTERNS)
    case = {'kind': kind, 'pattern': pat}
    if kind == 'range_hist':
        n = rng.randint(12, 24) if big else rng.randint(1, 8)
        case['edges'] = breaks(rng, n)
        case['counts'] = counts_pattern(rng, n, pat)
        case['location'] = rng.choice(['mid', 'mid', 'mid', 'right', 'left'])
    elif kind == 'range_mean_hist':
        n, m = rng.randint(1, 5), rng.randint(1, 3)
        case['edges'] = breaks(rng, n)
        case['mean_edges'] = [-100.0 + 75.0 * i for i in range(m + 1)]
        per_range = counts_pattern(rng, n, pat)
        cnt = []
        for x in per_range:          # spread the cycles of a range class over the mean classes (some of them empty)
            ws = [rng.choice([0, 1, 1, 2]) for _ in range(m)]
            if x > 0 and not any(ws):
                ws[rng.randrange(m)] = 1
            cnt += [x * w for w in ws]
        case['counts'] = cnt
        case['location'] = rng.choice(['mid', 'mid', 'right'])
    elif kind == 'fromto_hist':
        m = rng.randint(2, 4)
        case['edges'] = breaks(rng, m, uniform=True)
        c = counts_pattern(rng, m * m, 'sparse')
        if pat in ('empty_top', 'empty_top2'):     # the two corner classes carry the largest amplitude
            c[m - 1] = 0.0
            c[(m - 1) * m] = 0.0
        if not any(c[i] > 0 for i in range(m * m) if i // m != i % m):
            c[1] = 3.0
        case['counts'] = c
    elif kind == 'df_fromto':
        n = rng.randint(12, 24) if big else rng.randint(1, 8)
        amps = [rng.choice(DYADIC_W) * rng.randint(0 if rng.random() < 0.15 else 1, 12) for _ in range(n)]
        means = [rng.choice([0.0, 0.0, 10.0, -35.0, 120.0]) for _ in range(n)]
        flip = [rng.random() < 0.5 for _ in range(n)]
        case['from'] = [(m - a) if not f else (m + a) for a, m, f in zip(amps, means, flip)]
        case['to'] = [(m + a) if not f else (m - a) for a, m, f in zip(amps, means, flip)]
        case['with_cycles'] = rng.random() < 0.8
        case['counts'] = counts_pattern(rng, n, pat) if case['with_cycles'] else [1.0] * n
    else:
        n = rng.randint(1, 8)
        case['range'] = [2 * rng.choice(DYADIC_W) * rng.randint(1, 12) for _ in range(n)]
        case['mean'] = [rng.choice([0.0, 10.0, -35.0]) for _ in range(n)]
        case['with_cycles'] = rng.random() < 0.7
        case['counts'] = counts_pattern(rng, n, pat) if case['with_cycles'] else [1.0] * n
    if rng.random() < 0.3:
        case['scale'] = rng.choice([0.5, 2.0, 0.25, 1.7, 3.3, 0.1])
    # curve: the knee SD is placed relative to the amplitudes the implementation reports
    _pl()
    amps, cyc = members(accessor(make_obj(case), case))
    top = max(amps) if amps and max(amps) > 0 else 100.0
    mode = rng.choice(['ratio', 'ratio', 'ratio', 'at_member', 'at_top'])
    if mode == 'at_member':
        pos = [a for a in amps if a > 0]
        SD = rng.choice(pos) if pos else top
    elif mode == 'at_top':
        SD = top
    else:
        SD = top / rng.choice([0.4, 0.8, 1.25, 1.5, 2.0, 3.0, 5.0, 8.0])
    k1 = rng.choice([3.0, 4.0, 5.0, 6.0, 7.0, 3.5, 4.25, 5.5, 10.0, 1.0, 2.0])
    k2 = rng.choice([None, None, None, 'k1', '2k1-1', 15.0, 22.5])
    k2 = k1 if k2 == 'k1' else (2 * k1 - 1 if k2 == '2k1-1' else k2)
    case['curve'] = {'k_1': k1, 'ND': rng.choice([1e6, 2e6, 5e5, 4e7, 1e7, 1234567.0]), 'SD': SD, 'k_2': k2}
    # scatter and native failure probability: optional keys of every Woehler curve.  cycles() / Fatigue.damage() evaluate the
    # curve transformed to 50 %, so with scatter AND a native probability other than 50 % the knee point moves away from SD
    sc = rng.choice([None] * 6 + ['TN', 'TS', 'TN+TS', 'TN,p', 'TS,p', 'TN+TS,p', 'TS,p', 'p'])
    if sc is not None:
        if 'TN' in sc:
            case['curve']['TN'] = rng.choice([1.5, 2.0, 4.0, 6.25, 12.0])
        if 'TS' in sc:
            case['curve']['TS'] = rng.choice([1.1, 1.25, 1.5, 2.0])
        if 'p' in sc:
            case['curve']['failure_probability'] = rng.choice([0.1, 0.9, 0.025, 0.975, 0.3, 0.5, 1e-3])
    return case


# --------------------------------------------------------------------------- the property's relations on the implementation

def rel_close(a, b, rtol):
    a, b = np.asarray(a, float), np.asarray(b, float)
    return bool(np.all(np.abs(a - b) <= rtol * np.maximum(np.abs(a), np.abs(b)) + 1e-300))


def expected_amplitudes(case):
    """What the documentation of LoadHistogram says a class amplitude is (half the class mid / left / right limit
    of the range class; half the distance of the from and to class values), times the scale factor."""
    f = float(case.get('scale') or 1.0)
    loc = case.get('location', 'mid')

    def val(lo, hi):
        return {'mid': 0.5 * (lo + hi), 'left': lo, 'right': hi}[loc]
    e = [float(x) for x in case.get('edges', [])]
    ivs = list(zip(e[:-1], e[1:]))
    if case['kind'] == 'range_hist':
        return [f * val(lo, hi) / 2.0 for lo, hi in ivs]
    if case['kind'] == 'range_mean_hist':
        m = len(case['mean_edges']) - 1
        return [f * val(lo, hi) / 2.0 for lo, hi in ivs for _ in range(m)]
    if case['kind'] == 'fromto_hist':
        return [abs(f * val(*a) - f * val(*b)) / 2.0 for a in ivs for b in ivs]
    if case['kind'] == 'df_fromto':
        return [abs(f * a - f * b) / 2.0 for a, b in zip(case['from'], case['to'])]
    return [f * r / 2.0 for r in case['range']]


def gassner_relation(case, rule):
    """Apply the collective for the predicted Gassner cycles and sum the damage under the corresponding rule.
    Returns (applicable, damage_sum, Ng, info)."""
    _pl()
    obj = make_obj(case)
    lc = accessor(obj, case)
    amps, cyc = members(lc)
    tot = sum(cyc)
    occ = [a for a, n in zip(amps, cyc) if n > 0]
    info = {'max_all': max(amps) if amps else 0.0, 'max_occupied': max(occ) if occ else 0.0, 'total_cycles': tot}
    k1, k2 = float(case['curve']['k_1']), k2_of(case)
    SD, _ = curve50(case)        # the knee point of the curve the damage is evaluated on (= native SD without scatter / at 50 %)
    info['SD_native'], info['SD_50'] = float(case['curve']['SD']), SD
    if tot <= 0 or info['max_occupied'] <= 0:
        return False, None, None, info
    wc = curve_series(case)
    if rule == 'elementary':
        # load level = largest amplitude that occurs; at/above the knee, or a curve that is elementary below it
        if not (info['max_occupied'] >= SD or k2 == k1):
            return False, None, None, info
        Ng = float(wc.gassner_miner_elementary.gassner_cycles(lc))
        rule_curve = wc.fatigue.miner_elementary()
    else:
        if not info['max_all'] >= SD:
            # below the knee point: with the default k_2 = inf the Gassner cycles are inf (documented, theorem
            # gassner_haibach_below_knee_inf); a curve with a finite k_2 gets a finite number: the property's "scaled to any load level"
            if not math.isfinite(k2) or info['max_all'] <= 0:
                return False, None, None, info
            info['below_knee'] = True
            # what the faithful model proves for it (gassner_haibach_below_knee_damage): (max / SD)^(k_1 - k_2)
            info['damage_below_knee_model'] = (info['max_all'] / SD) ** (k1 - k2)
        Ng = float(wc.gassner_miner_haibach.gassner_cycles(lc))
        rule_curve = wc.fatigue.miner_haibach()
        # what a lifetime multiple computed with the knee of the NATIVE curve would give (the value the faithful model proves,
        # theorem gassner_haibach_split_value): A(native SD) / A(SD at 50 %)
        info['damage_if_native_knee'] = lm_haibach_ref(amps, cyc, info['SD_native'], k1) / lm_haibach_ref(amps, cyc, SD, k1)
    applied = accessor(times_cycles(obj, Ng / tot), case)
    d = float(np.sum(np.asarray(rule_curve.damage(applied), float)))
    return True, d, Ng, info


def relations(res, case, rng, stats):
    """All clauses of C11 on the implementation for one case.  Returns the number of relation evaluations."""
    M, F, SOL = _pl()
    obj = make_obj(case)
    lc = accessor(obj, case)
    amps, cyc = members(lc)
    n = len(amps)
    wc = curve_series(case)
    k1, k2 = float(case['curve']['k_1']), k2_of(case)
    SD, ND = curve50(case)       # Fatigue.damage / cycles() evaluate the curve at 50 % failure probability
    cnt = 0

    def bad(what, **kw):
        res.violation(what, case=case, **kw)

    fat = {'own': wc.fatigue, 'original': wc.fatigue.miner_original(), 'haibach': wc.fatigue.miner_haibach(),
           'elementary': wc.fatigue.miner_elementary()}
    dmg = {r: np.asarray(f.damage(lc), float) for r, f in fat.items()}
    # class amplitudes as documented (ties load_histogram / load_collective to the amplitudes the theorems speak about)
    cnt += 1
    if not rel_close(amps, expected_amplitudes(case), 1e-12):
        bad('class amplitude is not half the class value (mid/left/right) of the range class, resp. half |from - to|',
            observed=amps, expected=expected_amplitudes(case))
    for r in ('own', 'elementary', 'haibach'):
        f, d = fat[r], dmg[r]
        # additive over members: two parts of the collective
        if n >= 2:
            cut = rng.randrange(1, n)
            idx = list(range(n))
            rng.shuffle(idx)
            A, B = idx[:cut], idx[cut:]
            dA = np.asarray(f.damage(accessor(subset(obj, A), case)), float)
            dB = np.asarray(f.damage(accessor(subset(obj, B), case)), float)
            cnt += 1
            if not (rel_close(dA, d[A], 1e-12) and rel_close(dB, d[B], 1e-12)
                    and rel_close(dA.sum() + dB.sum(), d.sum(), 1e-11)):
                bad('damage is not additive over the members of the collective', rule=r, part_a=A, part_b=B,
                    damage_whole=d.tolist(), damage_a=dA.tolist(), damage_b=dB.tolist())
            # independent of member order
            perm = idx
            dP = np.asarray(f.damage(accessor(subset(obj, perm), case)), float)
            cnt += 1
            if not (rel_close(dP, d[perm], 1e-12) and rel_close(dP.sum(), d.sum(), 1e-11)):
                bad('damage depends on the order of the members', rule=r, permutation=perm,
                    damage=d.tolist(), damage_permuted=dP.tolist())
        # proportional to the cycle counts
        lam = rng.choice([2.0, 0.5, 3.0, 1e3, 0.37, 12345.678])
        dL = np.asarray(f.damage(accessor(times_cycles(obj, lam), case)), float)
        cnt += 1
        if not rel_close(dL, lam * d, 1e-12):
            bad('damage is not proportional to the cycle counts', rule=r, factor=lam, damage=d.tolist(), damage_scaled=dL.tolist())
    # original <= Haibach <= elementary, member by member
    cnt += 1
    o, h, e = dmg['original'], dmg['haibach'], dmg['elementary']
    if not (np.all(o >= 0) and np.all(o <= h * (1 + 1e-12)) and np.all(h <= e * (1 + 1e-12))):
        bad('damage is not ordered original <= Haibach <= elementary', original=o.tolist(), haibach=h.tolist(), elementary=e.tolist())
    # closed form per member (numpy, independent of the code path): n (S/SD)^k / ND with the slope of the rule
    a_, n_ = np.asarray(amps), np.asarray(cyc)
    with np.errstate(all='ignore'):
        x = np.where(a_ > 0, a_ / SD, 1.0)
        e_ref = np.where(a_ > 0, n_ * x ** k1 / ND, 0.0)
        h_ref = np.where(a_ > 0, np.where(a_ < SD, n_ * x ** (2 * k1 - 1) / ND, n_ * x ** k1 / ND), 0.0)
        o_ref = np.where(a_ < SD, 0.0, e_ref)
    cnt += 1
    if not (rel_close(e, e_ref, 1e-10) and rel_close(h, h_ref, 1e-10) and rel_close(o, o_ref, 1e-10)):
        bad('member damage is not n / N(S) with N(S) = ND (S/SD)^-k (k = k_1 at/above SD; below SD: inf, 2 k_1 - 1, k_1)',
            original=o.tolist(), haibach=h.tolist(), elementary=e.tolist(),
            expected_original=o_ref.tolist(), expected_haibach=h_ref.tolist(), expected_elementary=e_ref.tolist())
    tot = float(sum(cyc))
    occ = [a for a, c in zip(amps, cyc) if c > 0]
    m_occ, m_all = (max(occ) if occ else 0.0), (max(amps) if amps else 0.0)
    if tot <= 0 or m_occ <= 0:
        stats['degenerate_collective_skipped'] = stats.get('degenerate_collective_skipped', 0) + 1
        # no load at all: no Gassner life is defined (lifetime multiple inf / nan).  What effective_damage_sum answers is recorded only
        # (observation, notes/build/C11.md): Haibach nan -> 0.3 through the ordering of Python's max(0.3, nan)
        for name, acc in (('elementary', wc.gassner_miner_elementary), ('haibach', wc.gassner_miner_haibach)):
            try:
                with np.errstate(all='ignore'):
                    v = repr(float(acc.effective_damage_sum(lc)))
            except Exception as e:
                v = type(e).__name__
            key = 'all_empty_effective_damage_sum_%s=%s' % (name, v)
            stats[key] = stats.get(key, 0) + 1
        return cnt
    # Gassner cycles give damage one
    for rule, what in (('elementary', WHAT_ELEM), ('haibach', WHAT_HAIB)):
        ok, d, Ng, info = gassner_relation(case, rule)
        if not ok:
            stats['gassner_%s_below_knee_not_applicable' % rule] = stats.get('gassner_%s_below_knee_not_applicable' % rule, 0) + 1
            continue
        cnt += 1
        stats['gassner_%s_evaluated' % rule] = stats.get('gassner_%s_evaluated' % rule, 0) + 1
        if not (math.isfinite(d) and abs(d - 1.0) <= 1e-9):
            bad(what, rule=rule, gassner_cycles=Ng, observed=d, expected=1.0, **info)
    # the predicted life does not depend on the order in which the members are listed (histograms need not be ascending)
    if n >= 2:
        perm = list(range(n))
        rng.shuffle(perm)
        if rng.random() < 0.3:
            perm = list(range(n))[::-1]
        lcp = accessor(subset(obj, perm), case)
        for name, acc in (('elementary', wc.gassner_miner_elementary), ('haibach', wc.gassner_miner_haibach)):
            with np.errstate(all='ignore'):
                v = [float(acc.lifetime_multiple(lc)), float(acc.gassner_cycles(lc))]
                vp = [float(acc.lifetime_multiple(lcp)), float(acc.gassner_cycles(lcp))]
            cnt += 1
            same = all((math.isinf(x) and math.isinf(y)) or rel_close(x, y, 1e-11) for x, y in zip(v, vp))
            if not same:
                bad('lifetime multiple / Gassner cycles depend on the order of the members', rule=name, permutation=perm,
                    lifetime_multiple_and_gassner_cycles=v, permuted=vp)
    # MinerElementary.gassner: the shifted curve, read at the largest occupied amplitude
    if m_occ >= SD or k2 == k1:
        g = wc.gassner_miner_elementary.gassner(lc)
        Ng = float(np.asarray(g.cycles(m_occ)).reshape(-1)[0])
        applied = accessor(times_cycles(obj, Ng / tot), case)
        d = float(np.sum(np.asarray(fat['elementary'].damage(applied), float)))
        cnt += 1
        if not (math.isfinite(d) and abs(d - 1.0) <= 1e-9):
            bad('the Gassner-shifted curve (MinerElementary.gassner) read at the largest occupied amplitude does not give damage one',
                gassner_cycles=Ng, observed=d, expected=1.0, max_occupied=m_occ, max_all=m_all)
    # lifetime multiple / solidity do not depend on the load level or on the absolute cycle counts
    A_e = float(wc.gassner_miner_elementary.lifetime_multiple(lc))
    A_h = float(wc.gassner_miner_haibach.lifetime_multiple(lc))
    c2 = dict(case)
    c2['scale'] = float(case.get('scale') or 1.0) * 2.0
    A_e2 = float(wc.gassner_miner_elementary.lifetime_multiple(accessor(times_cycles(obj, 3.0), c2)))
    V = float(SOL.haibach(lc, k1))
    cnt += 2
    if not rel_close(A_e, A_e2, 1e-11):
        bad('elementary lifetime multiple depends on load level / absolute cycle counts', A=A_e, A_scaled=A_e2)
    if not (0 < V <= 1 + 1e-12 and rel_close(A_e * V, 1.0, 1e-12) and A_e >= 1 - 1e-12
            and rel_close(float(SOL.fkm(lc, k1)) ** k1, V, 1e-10)):
        bad('solidity not in (0,1] / lifetime multiple is not its reciprocal / fkm^k != haibach', solidity=V, A=A_e, fkm=float(SOL.fkm(lc, k1)))
    # effective damage sum
    for name, A, acc in (('elementary', A_e, wc.gassner_miner_elementary), ('haibach', A_h, wc.gassner_miner_haibach)):
        dm = float(acc.effective_damage_sum(lc))
        ref = min(max(0.3, 2.0 / A ** 0.25), 1.0) if A > 0 and math.isfinite(A) else None
        cnt += 1
        if not (0.3 <= dm <= 1.0) or (ref is not None and abs(dm - ref) > 1e-12):
            bad('effective damage sum outside [0.3, 1] or not the clipped 2 / A^(1/4)', rule=name, lifetime_multiple=A, observed=dm, expected=ref)
    return cnt


def eds_relation(res, rng, k):
    M, _, _ = _pl()
    cnt = 0
    for _ in range(k):
        A = rng.choice([16.0, 1975.308641975309, 1.0, 1e-3, 1e9]) if rng.random() < 0.2 else 10 ** rng.uniform(-3, 7)
        dm = float(M.effective_damage_sum(np.float64(A)))
        ref = min(max(0.3, 2.0 / A ** 0.25), 1.0)
        cnt += 1
        if not (0.3 <= dm <= 1.0 and abs(dm - ref) <= 1e-12):
            res.violation('effective damage sum outside [0.3, 1] or not the clipped 2 / A^(1/4)', lifetime_multiple=A, observed=dm, expected=ref)
    return cnt


# --------------------------------------------------------------------------- certificates

def coq_curve(k1, k2, ND, SD):
    k2s = 'None' if (k2 is None or not math.isfinite(k2)) else '(Some %s)' % common.rlit(k2)
    return '(mkCurve %s %s %s %s)' % (common.rlit(k1), k2s, common.rlit(ND), common.rlit(SD))


def coq_coll(amps, cyc):
    return '[' + '; '.join('(%s, %s)' % (common.rlit(a), common.rlit(n)) for a, n in zip(amps, cyc)) + ']'


def near(expr, v, rtol=1e-9):
    """|expr - v| <= rtol |v| (+ 1e-30); inf is compared through the sentinel -1 of or_else."""
    return cert.near(expr, v, rtol=rtol, atol=1e-30)


def opt(expr, v):
    if math.isinf(v) and v > 0:
        return near('(or_else %s (-1))' % expr, -1.0)
    return near('(or_else %s (-1))' % expr, v)


def case_certificates(case, variant, rng, full=True, knee='native'):
    """Certificate goals: the model evaluated on the case against what the implementation returns.
    The model curve `c` is the curve at 50 % failure probability as the implementation reports it (curve50: what cycles() and
    Fatigue.damage() evaluate); `cn` is the native curve (self.SD, self.ND -- what MinerHaibach.lifetime_multiple and
    MinerElementary.gassner read).  Without scatter / at native 50 % both coincide."""
    M, F, SOL = _pl()
    obj = make_obj(case)
    lc = accessor(obj, case)
    amps, cyc = members(lc)
    n = len(amps)
    wc = curve_series(case)
    k1, k2 = float(case['curve']['k_1']), k2_of(case)
    SD, ND = curve50(case)
    c = coq_curve(k1, k2, ND, SD)
    cn = coq_curve(k1, k2, float(case['curve']['ND']), float(case['curve']['SD']))
    ch = cn if knee == 'native' else c      # the curve whose knee point MinerHaibach.lifetime_multiple uses (per-run probe)
    l = coq_coll(amps, cyc)
    goals = []

    def add(g, *d):
        goals.append((g, d))
    # class amplitudes from the class limits (only where the float computation of the class value is exact enough)
    loc = {'mid': 'LMid', 'left': 'LLeft', 'right': 'LRight'}[case.get('location', 'mid')]
    f = float(case.get('scale') or 1.0)
    if case['kind'] in ('range_hist', 'range_mean_hist', 'fromto_hist'):
        e = [float(x) * f for x in case['edges']]
        ivs = list(zip(e[:-1], e[1:]))
        if case['kind'] == 'fromto_hist':
            terms = ['(fromto_amplitude %s (%s, %s) (%s, %s))' % (loc, common.rlit(a[0]), common.rlit(a[1]), common.rlit(b[0]), common.rlit(b[1]))
                     for a in ivs for b in ivs]
        else:
            m = (len(case['mean_edges']) - 1) if case['kind'] == 'range_mean_hist' else 1
            terms = ['(range_amplitude %s (%s, %s))' % (loc, common.rlit(lo), common.rlit(hi)) for lo, hi in ivs for _ in range(m)]
        pick = list(range(n)) if n <= 6 else sorted(rng.sample(range(n), 6))
        for i in pick:
            add(cert.near(terms[i], amps[i], rtol=1e-12, atol=1e-12), 'amplitude', i)
    # member damage under the curve's own k_2 and the three rules; sums
    rules = [('own', c, wc.fatigue), ('original', '(miner_original %s)' % c, wc.fatigue.miner_original()),
             ('haibach', '(miner_haibach %s)' % c, wc.fatigue.miner_haibach()),
             ('elementary', '(miner_elementary %s)' % c, wc.fatigue.miner_elementary())]
    pick = list(range(n)) if n <= 8 else sorted(rng.sample(range(n), 8))
    for name, cc, fat in rules:
        d = np.asarray(fat.damage(lc), float)
        if full:
            for i in (pick if name in ('haibach', 'elementary') or len(pick) <= 2 else sorted(rng.sample(pick, 2))):
                add(near('(damage1 %s (%s, %s))' % (cc, common.rlit(amps[i]), common.rlit(cyc[i])), float(d[i])), 'damage', name, i)
        add(near('(damage_sum %s %s)' % (cc, l), float(d.sum())), 'damage_sum', name)
        if name != 'own':
            add(opt('(k2 %s)' % cc, float(fat.k_2)), 'k_2', name)
    # cycles of the curve at a few loads around the knee
    SDn = float(case['curve']['SD'])
    for S in [SD, SD * 0.75, SD * 2.5, 0.0] + ([amps[rng.randrange(n)]] if n else []) + ([SDn] if SDn != SD else []):
        add(opt('(cycles %s %s)' % (c, common.rlit(S)), float(np.asarray(wc.woehler.cycles(S)).reshape(-1)[0])), 'cycles', S)
    tot = sum(cyc)
    occ = [a for a, x in zip(amps, cyc) if x > 0]
    if tot <= 0 or not occ or max(occ) <= 0:
        return goals
    # solidity, lifetime multiples, Gassner cycles, Gassner curve, effective damage sum
    kk = rng.choice([k1, 3.0, 6.5])
    add(near('(solidity_haibach %s %s)' % (l, common.rlit(kk)), float(SOL.haibach(lc, kk))), 'solidity.haibach', kk)
    add(near('(solidity_fkm %s %s)' % (l, common.rlit(k1)), float(SOL.fkm(lc, k1))), 'solidity.fkm', k1)
    ele, hai = wc.gassner_miner_elementary, wc.gassner_miner_haibach
    A_e, A_h = float(ele.lifetime_multiple(lc)), float(hai.lifetime_multiple(lc))
    add(near('(lm_elementary %s %s)' % (c, l), A_e), 'lifetime_multiple', 'elementary')
    add(near('(lm_haibach %s %s)' % (ch, l), A_h), 'lifetime_multiple', 'haibach', knee)
    gfun = {'all': 'gassner_cycles', 'occupied': 'gassner_cycles_occ'}[variant]
    add(opt('(%s lm_elementary %s %s)' % (gfun, c, l), float(ele.gassner_cycles(lc))), 'gassner_cycles', 'elementary', variant)
    add(opt('(gassner_cycles_split lm_haibach %s %s %s)' % (c, ch, l), float(hai.gassner_cycles(lc))), 'gassner_cycles', 'haibach', knee)
    g = ele.gassner(lc)
    add(near('(ND (gassner_curve %s %s))' % (cn, l), float(g.ND)), 'gassner.ND')
    S = max(occ)
    add(opt('(cycles (gassner_curve %s %s) %s)' % (c, l, common.rlit(S)), float(np.asarray(g.cycles(S)).reshape(-1)[0])), 'gassner.cycles', S)
    for nm, A, acc, fn in (('elementary', A_e, ele, 'lm_elementary'), ('haibach', A_h, hai, 'lm_haibach')):
        if abs(2.0 / A ** 0.25 - 0.3) > 1e-6 and abs(2.0 / A ** 0.25 - 1.0) > 1e-6:   # away from the clipping points
            add(near('(eds (%s %s %s))' % (fn, ch if nm == 'haibach' else c, l), float(acc.effective_damage_sum(lc))), 'effective_damage_sum', nm)
    return goals


def eds_certificates(rng, k):
    M, _, _ = _pl()
    goals = []
    for _ in range(k):
        A = 10 ** rng.uniform(-2, 6)
        if abs(2.0 / A ** 0.25 - 0.3) < 1e-6 or abs(2.0 / A ** 0.25 - 1.0) < 1e-6:
            continue
        goals.append((near('(eds %s)' % common.rlit(A), float(M.effective_damage_sum(np.float64(A)))), ('effective_damage_sum(A)', A)))
    return goals


# --------------------------------------------------------------------------- known finding

def empty_top_class_elementary(d):
    """Class of the known finding: Miner-elementary Gassner cycles when the class(es) of largest amplitude are empty,
    and the observed damage is what the faithful model predicts, (S_occupied / S_all)^k_1."""
    if d.get('rule') != 'elementary':
        return False
    mo, ma = float(d['max_occupied']), float(d['max_all'])
    if not (0 < mo < ma):
        return False
    k1 = float(d['case']['curve']['k_1'])
    pred = (mo / ma) ** k1
    return abs(float(d['observed']) - pred) <= 1e-6 * pred


def haibach_native_knee(d):
    """Class of the known finding: Miner-Haibach Gassner cycles of a curve with scatter whose native failure probability is
    not 50 % (knee point at 50 % differs from self.SD), and the observed damage is what the faithful model proves for a
    lifetime multiple that takes the knee from the native curve: A(native SD) / A(SD at 50 %)."""
    if d.get('rule') != 'haibach':
        return False
    sn, s5 = float(d['SD_native']), float(d['SD_50'])
    if not has_scatter(d['case']) or abs(sn - s5) <= 1e-12 * max(sn, s5):
        return False
    pred = float(d['damage_if_native_knee'])
    return math.isfinite(pred) and abs(pred - 1.0) > 1e-9 and abs(float(d['observed']) - pred) <= 1e-6 * pred


def haibach_below_knee(d):
    """Class of the known finding: Miner-Haibach Gassner cycles of a curve with a FINITE k_2 for a collective whose largest amplitude
    (over all classes) lies below the knee point; the observed damage is what the faithful model proves
    (gassner_haibach_below_knee_damage): (max / SD)^(k_1 - k_2) -- the lifetime multiple refers to the k_1 line extended below the
    knee, cycles(max) is read on the k_2 branch."""
    if d.get('rule') != 'haibach' or not d.get('below_knee'):
        return False
    if not float(d['max_all']) < float(d['SD_50']):
        return False
    pred = float(d['damage_below_knee_model'])
    return math.isfinite(pred) and abs(float(d['observed']) - pred) <= 1e-6 * pred


WITNESS_RULE = {'empty_top_class_elementary': 'elementary', 'haibach_native_knee': 'haibach', 'haibach_below_knee': 'haibach'}


def witness_fails(entry):
    case = entry['witness']
    ok, d, Ng, info = gassner_relation(case, WITNESS_RULE.get(entry.get('class'), 'elementary'))
    return ok and not abs(d - 1.0) <= 1e-9


# --------------------------------------------------------------------------- run

def corpus_cases():
    out = []
    for p in sorted(glob.glob(os.path.join(common.CORPUS, 'C11', '*.json'))):
        j = json.load(open(p))
        out += j if isinstance(j, list) else [j]
    return out


def nontrivial(case):
    """>= 2 occupied members and at least one empty class."""
    try:
        amps, cyc = members(accessor(make_obj(case), case))
    except Exception:
        return False
    return sum(1 for x in cyc if x > 0) >= 2 and any(x == 0 for x in cyc)


def run(res, only_cases=None, with_eds=True):
    quick = res.tier == 'quick'
    res.classes['empty_top_class_elementary'] = empty_top_class_elementary
    res.classes['haibach_native_knee'] = haibach_native_knee
    res.classes['haibach_below_knee'] = haibach_below_knee
    res.trusted += ['hand-written list model coq/theories/Strength/C11Model.v (tied to the code only through the per-run certificates on sampled inputs)',
                    'CoqInterval (interval tactic) + lra for the per-run certificates; float -> exact rational conversion',
                    'axioms: ClassicalDedekindReals.sig_forall_dec, sig_not_dec, functional_extensionality_dep (Coq Reals), Classical_Prop.classic']
    res.assumptions += ['floating-point rounding of numpy/pandas is outside the theorems: certificates compare at 1e-9 relative, relations at 1e-9 .. 1e-12',
                        'amplitudes are >= 0 (they are |from - to| / 2 or half a non-negative range class value); one curve, one collective (no broadcasting)',
                        'damage-one clause: load level (largest amplitude) at or above the knee point SD, or (elementary) a curve with k_2 = k_1; '
                        'below the knee MinerHaibach documents inf',
                        'curves with scatter (TN/TS) / native failure probability != 50 %: the model curve is the curve at 50 % as '
                        'WoehlerCurve.transform_to_failure_probability(0.5) reports it (the transformation itself is not modelled here); the knee point '
                        'used by MinerHaibach.lifetime_multiple (native / at 50 %) is probed per run and recorded']
    res.cov['rule'] = ('curves k_1 in {1..10}, k_2 in {inf, k_1, 2k_1-1, 15, 22.5}, SD placed at 0.125..2.5 x the top amplitude or exactly on a member; '
                       '6 of 14 curves plain, the others with TN and/or TS (1.1..12) and/or failure_probability in {0.001, 0.025, 0.1, 0.3, 0.5, 0.9, 0.975}; '
                       'collectives as range / range x mean / from-to histograms and from-to / range-mean DataFrames, 1..8 classes (thorough: 4 cases with 12..24), '
                       'dyadic class limits, class location mid/left/right, optional scale(); count patterns full / empty top (1-2) / empty bottom / '
                       'empty middle / sparse / single / non-integer. non-trivial = distinct case with >= 2 occupied members and >= 1 empty class')
    proofs_ok = common.standard_proof_stage(res, 'C11', extra_targets=['theories/Strength/C11Cert.vo', 'theories/Common/Cert.vo'])
    _pl()
    stats = {}
    # which Gassner variant does the implementation follow?  (faithful model of the unchanged code: largest amplitude of ALL classes;
    # repaired code: largest OCCUPIED amplitude -- both are modelled, both have their theorem)
    probe = {'kind': 'range_hist', 'edges': [0, 200, 400, 600, 800], 'counts': [10, 5, 2, 0], 'pattern': 'empty_top',
             'curve': {'k_1': 5.0, 'ND': 1e6, 'SD': 100.0, 'k_2': None}}
    try:
        ok, d, _, _ = gassner_relation(probe, 'elementary')
        variant = 'occupied' if (ok and abs(d - 1.0) <= 1e-9) else 'all'
    except Exception:
        variant = 'all'
    res.cov['gassner_elementary_variant_of_the_implementation'] = variant
    # which knee point does MinerHaibach.lifetime_multiple use for a curve with scatter and native probability != 50 %?
    # (faithful model of the unchanged code: self.SD of the native curve -> gassner_cycles_split c50 cn; repaired code: the knee of the
    # curve at 50 % that cycles() / Fatigue.damage() evaluate -> gassner_cycles_split c50 c50 = gassner_cycles c50, theorem
    # gassner_haibach_split_same_knee)
    probe_h = {'kind': 'range_hist', 'edges': [50, 150, 250, 350, 450], 'counts': [1000, 100, 10, 1], 'pattern': 'full',
               'curve': {'k_1': 5.0, 'ND': 1e6, 'SD': 100.0, 'k_2': None, 'TN': 4.0, 'TS': 1.5, 'failure_probability': 0.1}}
    try:
        ok, d, _, _ = gassner_relation(probe_h, 'haibach')
        knee = '50%' if (ok and abs(d - 1.0) <= 1e-9) else 'native'
    except Exception:
        knee = 'native'
    res.cov['haibach_knee_point_variant_of_the_implementation'] = knee
    if only_cases is not None:
        cases = list(only_cases)
    else:
        n_cases = 20 if quick else 100
        cases = corpus_cases() + [gen_case(res.rng) for _ in range(n_cases)]
        if not quick:
            for _ in range(4):
                c = gen_case(res.rng, big=True)
                c['big'] = True
                cases.append(c)
    # D1: certificates
    goals, descr, rejected = [], [], 0
    for ci, case in enumerate(cases):
        try:
            gs = case_certificates(case, variant, res.rng, full=not case.get('big'), knee=knee)
        except Exception as e:
            rejected += 1
            res.notes.append('case %d rejected by the implementation: %r' % (ci, e))
            continue
        for g, d in gs:
            goals.append(g)
            descr.append((ci,) + tuple(d))
    if with_eds:
        for g, d in eds_certificates(res.rng, 12 if quick else 60):
            goals.append(g)
            descr.append(d)
    res.cov['cases_rejected_by_implementation'] = rejected
    if goals and (proofs_ok or not any('B:' in str(b.get('obligation')) for b in res.broken)):
        try:
            import time
            t0 = time.time()
            okc, badc, log = cert.run_certs('C11', REQ, [], goals, extra_tac='c11_prep;', chunk=40)
            if badc:      # a killed / starved coqc is an infrastructure failure, not a result: goals that failed are tried once more
                ok2, bad2, log2 = cert.run_certs('C11retry', REQ, [], [goals[i] for i in badc], extra_tac='c11_prep;', chunk=20)
                okc = sorted(set(okc) | {badc[j] for j in ok2})
                badc = [badc[j] for j in bad2]
                log = log2
                res.cov['certificate_goals_retried'] = len(ok2) + len(bad2)
            res.cov['certificate_wall_s'] = round(time.time() - t0, 1)
            okset, bad_cases = set(okc), {}
            for i in range(len(goals)):
                if i not in okset:
                    bad_cases.setdefault(descr[i][0], []).append(descr[i][1:])
            n_ok = len(okc)
            res.obligations += n_ok
            res.discharged += n_ok
            for ci, ds in sorted(bad_cases.items(), key=lambda kv: str(kv[0])):
                cs = cases[ci] if isinstance(ci, int) else ci
                res.oblige('correspondence: certificates of case %s' % (ci,), False,
                           json.dumps({'failed': [list(map(str, d)) for d in ds][:12], 'case': cs}, default=str) + '\n' + log[-800:])
            res.cov['certificate_goals'] = len(goals)
            res.cov['certificate_failed'] = [[str(x) for x in descr[i]] for i in badc][:30]
        except Exception as e:
            res.oblige('certificates could be generated and run', False, repr(e))
    # D2: the relations themselves on the implementation (always)
    k = 0
    for ci, case in enumerate(cases):
        try:
            k += relations(res, case, res.rng, stats)
        except Exception as e:
            stats['relation_raised'] = stats.get('relation_raised', 0) + 1
            res.notes.append('case %d: relations raised %r' % (ci, e))
            res.oblige('relations of case %d could be evaluated' % ci, False, '%r %s' % (e, json.dumps(case, default=str)))
    if with_eds:
        k += eds_relation(res, res.rng, 60 if quick else 600)
    distinct = {json.dumps(c, sort_keys=True, default=str) for c in cases}
    res.add_cases(k + len(goals), nontrivial=sum(1 for s in distinct if nontrivial(json.loads(s))))
    res.cov['impl_relation_evaluations'] = k
    res.cov['relation_stats'] = stats
    res.cov['case_kinds'] = {kd: sum(1 for c in cases if c['kind'] == kd) for kd in KINDS}
    res.cov['case_patterns'] = {p: sum(1 for c in cases if c.get('pattern') == p) for p in sorted(set(PATTERNS) | {'corpus'})}
    for c in cases[:3] + cases[-2:]:
        res.sample({'case': c})
    # E: known findings
    res.replay_known(witness_fails)


def replay(res, rp):
    v = rp.get('violation') or {}
    case = v.get('case')
    if case is None:
        for b in rp.get('no_longer_checks', []) + rp.get('broken_obligations', []):
            try:
                j = json.loads(str(b.get('detail', '')).split('\n')[0])
                case = j.get('case')
                break
            except Exception:
                continue
    if case is None:
        print('replay file holds no single input; running the full check')
        run(res)
        return res.finish()
    print('replaying', json.dumps({k: v[k] for k in v if k != 'case'}, default=str)[:600])
    print('case', json.dumps(case, default=str))
    run(res, only_cases=[case], with_eds=False)
    return res.finish()
