"""C10 -- FKM-nonlinear assessment: batch independence, sample insensitivity, monotonicity.

Coq part (props/C10.v): composition lemmas over abstract stages with explicit contracts (coq/theories/Assess/Pipeline.v).
The property itself is decided on every run by relations between calls of perform_fkm_nonlinear_assessment
(batch vs single, refined vs original sequence, scaled loads, rougher surface, smaller P_A, N_10 <= N_50 <= N_90,
infinite-life verdicts); every contract the theorems assume is checked on the stage outputs of the same calls."""
import json
import math
import os

import numpy as np

import common
import fkmnl

MANIFEST = dict(
    text='Theorems (props/C10.v) about the composition layer of perform_fkm_nonlinear_assessment (Assess/Pipeline.v): the pipeline load safety '
         'scaling -> HCM with binned notch law -> damage parameter -> component curve -> accumulation over abstract stages (Section variables with '
         'explicit contracts), the three quantities shared across a batch (maximum load for gamma_L, table maximum, P_RAJ class maximum) as explicit '
         'aggregators.  Proved: pointwise_if_shared_pointwise (per-point aggregation => batch result at a point = single result, any batch); '
         'shared_max_breaks_it_refuted (witness in an instance meeting every contract: a batch-wide class maximum changes a point\'s result); '
         'lifetime_antitone_in_scale / lifetime_isotone_in_knee (loads scaled by c >= 1, lower curve knee: rougher surface, smaller P_A => P_RAM life not '
         'longer; includes the proof that the gamma_L formulas of fkm_load_distribution.py keep scaling monotone); refine_insensitive (non-reversal '
         'samples / repeated values change neither result, incl. concrete invariance of the maximum absolute load); N10_le_N50_le_N90 (P_RAM: knee '
         'shifted by 10^(lg f25 - (0.8 beta - 2) 0.08)) and N10_le_N50_le_N90_RAJ (life * 10^((lg f25 - (0.8 beta - 2) 0.155) |1/d|)) from beta '
         'antitone; contracts_satisfiable + instance_not_degenerate; row layout of per-point data (Assess/Layout.v): knee_rows_tiled_pointwise (rows ordered '
         '(hysteresis, point): tiling the per-point knees gives row h*n+i the knee of point i), knee_rows_repeated_refuted, uniform_knee_hides_layout; decisions of the HCM in a batch '
         '(Assess/Decide.v: every branch is decided by comparing two absolute loads / load extents of the FIRST point with an absolute tolerance and applied to all points): '
         'hcm_exact_decision_scale_invariant, hcm_relative_tolerance_scale_invariant, hcm_decision_transfers_when_separated (the first point\'s decision is the decision of point i when the compared '
         'quantities are equal or differ by more than the tolerance at both points), hcm_absolute_tolerance_not_scale_invariant_refuted (for every absolute tolerance > 0 and every pair of different '
         'quantities some positive load ratio of the first point makes the batch decide differently from the point itself), hcm_separation_satisfiable.  The stage contracts (cycle structure under scaling / refinement, damage '
         'parameter not smaller for larger loads, curve N antitone in P and isotone in the knee, accumulation antitone, gamma_L, beta antitone, which '
         'aggregator the code uses, which point\'s knee a row of the batch table uses, hystereses of a batch point = those of its single assessment wherever the compared loads are separated at the first point and at the point) are checked on the implementation\'s stage outputs on every run; the property itself (P_RAM and P_RAJ, lifetime and '
         'infinite-life verdict) is decided by relations between assessment calls on every run, including batches in which one point (the first, or a later one) is almost unloaded (load ratio down to 1e-10, thorough 1e-15).',
    note=common.TB_NOTE + 'the stages (HCM, binned notch law, P_RAM/P_RAJ, curves, accumulation) are abstract in Coq: their contracts are checked on sampled '
         'stage outputs, not proved here (C04/C05/C07/C09 model them); the P_RAJ crack-opening loop and its class summation are outside the model except for '
         'the dependence on the shared class maximum; float rounding is outside the theorems (relations compared at 1e-9 relative).',
    technique='Coq proof (composition lemmas over contract-carrying stages, R) + contract checks and metamorphic relations on the implementation',
    design='6/C10')

RT = 1e-9          # float noise; class-edge effects are 1e-3 .. 1e-1 and are never absorbed by this
RT_SOLVER = 5e-5   # P_RAJ batch vs single: the Seeger-Beste look-up tables are filled by an iterative solver (rtol 1e-4 .. 1e-5 on the stress,
                   # the library's own test compares them with rtol=1e-3); solving for all points at once ends on slightly different iterates
                   # (observed 1.3e-6 in the lifetime).  Class-edge (>= 1e-3) and shared-class-maximum (1e-3 .. 5e-2) effects stay visible.
EDGE = 1e-7        # a load (range) closer than this (in units of one look-up class) to a class edge: float rounding decides the class

W_BATCH = 'batch result of a point differs from its single assessment'
W_REFINE = 'result changes when non-reversal samples / repeated values are inserted'
W_SCALE = 'scaling all loads up increases the lifetime'
W_ROUGH = 'a rougher surface increases the lifetime'
W_PA = 'a smaller failure probability increases the lifetime'
W_QUANT = 'N_10 <= N_50 <= N_90 violated'
W_ERR = 'assessment raises on one side of the relation only'


def close(a, b, rt=RT):
    if a == b:
        return True
    if math.isinf(a) or math.isinf(b) or math.isnan(a) or math.isnan(b):
        return False
    return abs(a - b) <= rt * max(abs(a), abs(b))


def le(a, b, rt=RT):
    """a <= b up to float noise"""
    return a <= b or close(a, b, rt)


def key(spec):
    return json.dumps(spec, sort_keys=True)


def times(seq, r):
    return [float(v) for v in (np.asarray(seq, dtype=float) * float(r))]


# ------------------------------------------------------------------ generators

def refine_simple(rng, s):
    """insert samples that are not reversals (on the segment between neighbours, or repeated values) strictly inside s"""
    res = [float(s[0])]
    for i in range(1, len(s)):
        u, v = float(s[i - 1]), float(s[i])
        seg = []
        for _ in range(rng.choice([0, 0, 1, 1, 2, 3])):
            t = rng.choice([0.0, 1.0, 0.5, rng.random()])
            y = u if t == 0.0 else v if t == 1.0 else u + t * (v - u)
            lo, hi = min(u, v), max(u, v)
            seg.append(min(max(y, lo), hi))
        seg.sort(reverse=(u > v))
        if i == len(s) - 1 and seg and seg[-1] == v and rng.random() > 0.1:
            seg[-1] = u + 0.75 * (v - u)       # a repeated LAST sample is the known finding trailing-repeated-sample: generated rarely
            seg.sort(reverse=(u > v))
        res += seg + [v]
    return res


def gen_sequence(rng, j):
    """(sequence, kind).  'edge' sequences are the library's own test sequences (round numbers: many loads on look-up class
    edges); the others avoid class edges."""
    kind = ['suite', 'jitter', 'random', 'ties', 'jitter', 'random'][j % 6]
    if kind in ('random', 'ties'):
        n = rng.randint(2, 16)
        amp = rng.uniform(120, 420)
        s = [round(rng.uniform(-amp, amp), 3) for _ in range(n)]
        if rng.random() < 0.3:                      # mostly tensile / compressive sequences
            off = rng.choice([-1, 1]) * amp * 0.6
            s = [round(0.4 * x + off, 3) for x in s]
        if kind == 'ties':                          # repeated and nearly repeated extremes (the HCM compares loads with 1e-12 tolerances)
            for k in range(1, len(s)):
                if rng.random() < 0.45:
                    s[k] = rng.choice([1, -1]) * s[rng.randrange(k)] + rng.choice([0.0, 0.0, 0.4, -0.7, 0.05])
    else:
        base = rng.choice(fkmnl.SUITE[:13])
        m = max(abs(v) for v in base)
        f = 1.0 if 90 <= m <= 450 else (0.25 if m > 450 else 400.0)
        s = [float(v) * f for v in base]
        if kind == 'jitter':
            g = rng.uniform(0.6, 1.3)
            s = [round(v * g * (1 + rng.uniform(-0.03, 0.03)), 3) for v in s]
    return s, kind


PA_TABLE = [1e-7, 1e-6, 1e-5, 7.2e-5, 1e-3, 2.3e-1, 0.5]

# relative stress gradients [1/mm]: mild notches (fracture-mechanics support factor n_bm clipped to 1: every point has the same component
# curve) and sharp notches (n_bm > 1 from about G = 4..6 on: the knee of the component curve differs from point to point)
G_MILD = [0.05, 2 / 15, 0.5, 1.5]
G_SHARP = [4.0, 8.0, 15.0, 30.0]

# labels of the batch points in the node_id level (the labels are arbitrary; the order of the points is the order of the ratios)
LAYOUTS = ['range', 'gaps', 'offset', 'unsorted', 'range', 'sharpG', 'gaps']


def gen_node_ids(rng, layout, n):
    if layout == 'offset':
        o = rng.choice([1, 10, 1000])
        return list(range(o, o + n))
    if layout == 'gaps':
        return sorted(rng.sample(range(0, 60), n))
    if layout == 'unsorted':
        ids = rng.sample(range(0, 60), n)
        if ids == sorted(ids):
            ids.reverse()
        return ids
    return None


def gen_G_per_point(rng, n, i0, G, force):
    """one gradient per point, mild and sharp notches mixed; force: one point gets the sharpest notch (n_bm > 1 for every material of the
    generator) unless the reference point has it, so that at least two component curves differ"""
    Gs = [rng.choice(G_MILD + G_SHARP) for _ in range(n)]
    Gs[i0] = G
    others = [k for k in range(n) if k != i0]
    if others:
        k = rng.choice(others)
        if force:
            Gs[k] = G_SHARP[-1] if G < G_SHARP[-1] else G_MILD[0]
        else:
            Gs[k] = rng.choice(G_MILD if G in G_SHARP else G_SHARP)
    return Gs


def gen_params(rng, j):
    p = {}
    mode = ['normal', 'blanket', 'p50', 'lognormal', 'normal', 'p50'][(j // 2) % 6]
    if mode == 'normal':
        p.update({'s_L': rng.choice([5, 10, 15]), 'P_L': rng.choice([2.5, 50]), 'P_A': rng.choice(PA_TABLE[1:6])})
    elif mode == 'lognormal':
        p.update({'s_L': None, 'LSD_s': rng.choice([0.01, 0.03]), 'P_L': rng.choice([2.5, 50]), 'P_A': rng.choice(PA_TABLE[1:6])})
    elif mode == 'blanket':
        p.update({'s_L': None, 'P_L': rng.choice([2.5, 50]), 'P_A': rng.choice([1e-6, 7.2e-5, 1e-3, 0.02, 0.3])})
    else:
        p.update({'s_L': None, 'P_L': 50, 'P_A': 0.5})
    p['R_m'] = rng.choice([400, 600, 600, 900])
    p['MatGroupFKM'] = rng.choice(['Steel', 'Steel', 'SteelCast', 'Al_wrought'])
    if p['MatGroupFKM'] == 'Al_wrought':
        p['R_m'] = rng.choice([250, 400])
    p['R_z'] = rng.choice([0.5, 6.3, 25, 100, 250])
    p['K_p'] = rng.choice([1.5, 2.5, 3.5])
    p['c'] = rng.choice([1.0, 1.4])
    return p


def smaller_PA(rng, p):
    pa = p['P_A']
    if p.get('s_L') is not None or 'LSD_s' in p:
        lower = [q for q in PA_TABLE if q < pa * 0.999]
        return rng.choice(lower) if lower else None
    return pa * rng.choice([0.5, 0.1, 0.9, 0.01])


def pa_chain(rng, s, p, G, skind):
    """the whole table of failure probabilities, pair by pair, for a load distribution with sizeable scatter (gamma_L then depends on P_A as
    strongly as gamma_M): normal with s_L up to 0.48 L_max (P_L = 2.5 %: the given sequence is the mean + 2 s_L one, 2 s_L < L_max keeps
    gamma_L positive for every P_A) or up to 0.9 L_max (P_L = 50 %), log-normal with LSD_s up to 0.25.  The sequence is scaled down so that
    the loads after gamma_L (up to about 4) stay in the range of the other cases."""
    m = max(abs(v) for v in s)
    seq = [round(v * rng.uniform(60, 140) / m, 4) for v in s]
    L = max(abs(v) for v in seq)
    q = {k: v for k, v in p.items() if k not in ('s_L', 'LSD_s', 'P_L', 'P_A')}
    q['P_L'] = rng.choice([2.5, 50])
    if 'LSD_s' in p:
        q.update({'s_L': None, 'LSD_s': rng.choice([0.05, 0.1, 0.15, 0.25])})
    else:
        f = rng.choice([0.15, 0.3, 0.42, 0.48]) if q['P_L'] == 2.5 else rng.choice([0.2, 0.45, 0.7, 0.9])
        q['s_L'] = round(f * L, 3)
    specs = [{'seq': seq, 'ratios': None, 'G': G, 'params': dict(q, P_A=pa)} for pa in reversed(PA_TABLE)]
    return [{'kind': 'pa', 'specs': [specs[k], specs[k + 1]], 'skind': skind, 'chain': True} for k in range(len(specs) - 1)]


def gen_items(rng, j, thorough):
    """the relation instances of one generated case: list of dicts {kind, specs, ...} (JSON serialisable)"""
    s, skind = gen_sequence(rng, j)
    p = gen_params(rng, j)
    layout = LAYOUTS[j % len(LAYOUTS)]
    G = rng.choice(G_MILD + G_MILD + G_SHARP)
    ref = {'seq': s, 'ratios': None, 'G': G, 'params': p}
    items = []
    # batch
    n = rng.randint(2, 5)
    ratios = [round(rng.uniform(0.2, 3.0), 2) for _ in range(n)]
    i0 = rng.randrange(n)
    ratios[i0] = 1.0
    if layout == 'sharpG' or rng.random() < 0.4:
        Gs = gen_G_per_point(rng, n, i0, G, layout == 'sharpG')
    else:
        Gs = G
    b = {'seq': s, 'ratios': ratios, 'G': Gs, 'params': p}
    ids = gen_node_ids(rng, layout, n)
    if ids is not None:
        b['node_ids'] = ids
    items.append({'kind': 'batch', 'specs': [ref, b], 'i': i0, 'skind': skind})
    others = [k for k in range(n) if k != i0]
    for k in (others if thorough else others[:1]):
        sk = {'seq': times(s, ratios[k]), 'ratios': None, 'G': Gs[k] if isinstance(Gs, list) else G, 'params': p}
        items.append({'kind': 'batch', 'specs': [sk, b], 'i': k, 'skind': skind})
    # refinement
    items.append({'kind': 'refine', 'specs': [ref, dict(ref, seq=refine_simple(rng, s))], 'skind': skind})
    # scaling
    c = rng.choice([1.0 + 10 ** rng.uniform(-4, -1.3), rng.uniform(1.3, 2.0), rng.uniform(1.0, 1.3)])
    items.append({'kind': 'scale', 'specs': [ref, dict(ref, seq=times(s, c))], 'c': c, 'skind': skind})
    # rougher surface
    rz = p['R_z'] * rng.choice([1.3, 4.0, 10.0]) if p['R_z'] >= 1 else rng.choice([0.9, 3.0, 40.0])
    items.append({'kind': 'rough', 'specs': [ref, dict(ref, params=dict(p, R_z=rz))], 'skind': skind})
    # smaller failure probability
    pa = smaller_PA(rng, p)
    if pa is not None:
        items.append({'kind': 'pa', 'specs': [ref, dict(ref, params=dict(p, P_A=pa))], 'skind': skind})
    if abs(p['P_A'] - 0.5) < 1e-9:
        items.append({'kind': 'quantiles', 'specs': [ref], 'skind': skind})
    # the table of failure probabilities pair by pair, with a load distribution of sizeable scatter
    if (p.get('s_L') is not None or 'LSD_s' in p) and (thorough or j % 2 == 0):
        items += pa_chain(rng, s, p, G, skind)
    return items


# ---- ratio spread: one co-assessed point is almost unloaded (the quantifier says "any positive load ratios")

HCM_TOL = 1e-12    # absolute tolerance of the five load comparisons of FKMNonlinearDetector (eps of Assess/Decide.v); the HCM takes its
                   # decisions from the loads of the FIRST point of a batch and applies them to all points


def gen_spread(rng, j, ref, skind, thorough):
    """relation instances (kind 'batch') for a batch in which one point carries a load ratio of 1e-7.5 .. 1e-10 (thorough: 1e-3 .. 1e-15.5)
    relative to the reference point: at the first position (5 of 7 cases) or at a later one.  Calls with calculate_P_RAJ=False (the P_RAJ
    branch of such a batch often raises on the unchanged tree: known finding praj-batch-near-zero-point), thorough: every fourth case with
    both.  A normal load distribution with an absolute s_L is replaced by the blanket factor: gamma_L = (L_max + alpha s_L) / L_max of
    an almost unloaded point is not a description of a load scatter (2 s_L > L_max, see notes, observation 6)."""
    p = ref['params']
    q = dict(p, s_L=None) if p.get('s_L') is not None else dict(p)
    both = thorough and j % 4 == 3
    want = ['ram', 'raj'] if both else ['ram']
    n = rng.randint(2, 4)
    ratios = [round(rng.uniform(0.2, 3.0), 2) for _ in range(n)]
    t = 0 if j % 3 != 2 else rng.randrange(1, n)
    i0 = rng.choice([k for k in range(n) if k != t])
    ratios[i0] = 1.0
    if thorough and not both and rng.random() < 0.4:
        e = rng.uniform(3.0, 15.5)
    else:
        e = rng.uniform(7.5, 10.0)
    ratios[t] = float('%.3g' % 10 ** -e)
    G = ref['G']
    Gs = gen_G_per_point(rng, n, i0, G, False) if rng.random() < 0.3 else G
    single = lambda k: {'seq': times(ref['seq'], ratios[k]) if k != i0 else ref['seq'], 'ratios': None,
                        'G': Gs[k] if isinstance(Gs, list) else G, 'params': q, 'want': want}
    b = {'seq': ref['seq'], 'ratios': ratios, 'G': Gs, 'params': q, 'want': want}
    tag = {'tiny_at': t, 'log10_ratio': round(-e, 2), 'P_RAJ': both}
    pts = [i0] + ([t] if (t != 0 or thorough) else []) + ([k for k in range(n) if k not in (i0, t)] if thorough else [])
    return [{'kind': 'batch', 'specs': [single(k), b], 'i': k, 'skind': skind, 'spread': tag} for k in pts]


def decision_margins(seq):
    """The quantities the HCM compares are absolute loads and absolute load differences (extents).  For the samples of `seq` and the zero
    sample prepended for the first run (a superset of what is really compared): -> (d_min, tie, tie_base) in units of the sequence;
    d_min = smallest difference between two distinct quantities of the same kind, tie = two extents (or absolute loads) agree up to
    rounding (difference <= tie_base = 4 ulp of the largest load) without being the same float"""
    xs = sorted(set([0.0] + [float(v) for v in seq]))
    m = max(abs(v) for v in xs)
    tie_base = 4 * 2.0 ** -52 * m
    X = np.asarray(xs)
    A = np.sort(np.abs(X))
    iu = np.triu_indices(len(X), 1)
    E = np.sort(np.abs(X[:, None] - X[None, :])[iu])
    d_min, tie = float('inf'), False
    for fam, exact_is_tie in ((A, False), (E, True)):
        g = np.diff(fam)
        big = g[g > tie_base]
        if big.size:
            d_min = min(d_min, float(big.min()))
        small = g[g <= tie_base]
        if small.size and (exact_is_tie or (small > 0).any()):
            tie = True
    return d_min, tie, tie_base


def eff_factor(spec, k):
    """effective load of point k of a batch spec / load of the reference sequence: ratio * gamma_L(L_max of the point) * c"""
    r = spec['ratios'][k]
    M = r * max(abs(v) for v in spec['seq'])
    cfac = dict(fkmnl.BASE_PARAMS, **{k_: v for k_, v in spec['params'].items() if v is not None})['c']
    return r * gamma_model(spec['params'], M) * cfac


def decisions_clear(seq, rho, tol=HCM_TOL):
    """every comparison of the HCM on the loads rho * seq is decided as for exact arithmetic on seq (Decide.decision_transfers_when_separated):
    distinct quantities differ by more than the tolerance (factor 4 for rounding), ties are absorbed by it"""
    d_min, tie, tie_base = decision_margins(seq)
    return rho * d_min >= 4 * tol and (not tie or rho * tie_base <= tol / 2)


def sub_tolerance(seq, rho, tol=HCM_TOL):
    """some distinct pair of compared quantities of the loads rho * seq differs by less than (4 x) the absolute tolerance"""
    return rho * decision_margins(seq)[0] < 4 * tol


# ------------------------------------------------------------------ judging one relation instance

def edge_dist(seq):
    return fkmnl.edge_distance(seq)


_ALONE = {}


def inadmissible_point(b):
    """does some point of the batch spec `b` raise when it is assessed alone?"""
    kb = key(b)
    if kb not in _ALONE:
        G = b['G']
        singles = [{'seq': times(b['seq'], r), 'ratios': None, 'G': G[k] if isinstance(G, list) else G, 'params': b['params']}
                   for k, r in enumerate(b['ratios'])]
        if b.get('want'):
            singles = [dict(sp, want=b['want']) for sp in singles]
        outs = fkmnl.run_jobs([('assess', sp) for sp in singles])
        _ALONE[kb] = any('error' in o and not o['error'].startswith('worker') for o in outs)
    return _ALONE[kb]


def judge(item, sums):
    """-> (list of (what, measure, detail), rejected?)   measure in RAM_life / RAJ_life / RAM_inf / RAJ_inf / ..."""
    errs = ['error' in s for s in sums]
    if all(errs):
        return [], True
    k = item['kind']
    if any(errs):
        # the implementation accepts one side of the relation and raises on the other: for batch / refine / scale (c >= 1 keeps every
        # load inside the table that is scaled along) both sides are equally admissible inputs
        if k == 'scale' and not errs[0]:
            return [], True      # the larger loads leave what the implementation accepts (notch-law solver beyond the limit load): no lifetime to compare
        if k == 'batch' and not errs[0] and inadmissible_point(item['specs'][1]):
            return [], True      # some point of the batch is rejected when assessed alone as well: the call as a whole is not an admissible input
        if k in ('batch', 'refine', 'scale'):
            return [(W_ERR, 'call', {'errors': [s.get('error') for s in sums]})], False
        return [], True
    out = []
    a = sums[0]
    if k == 'batch':
        b, i = sums[1], item['i']
        for m in ('RAM_life', 'RAJ_life', 'RAM_times', 'RAJ_times', 'RAM_N_10', 'RAM_N_50', 'RAM_N_90', 'RAJ_N_10', 'RAJ_N_50', 'RAJ_N_90'):
            if m in a and m in b and not close(a[m][0], b[m][i], RT_SOLVER if m.startswith('RAJ') else RT):
                out.append((W_BATCH, m, {'single': a[m][0], 'batch': b[m][i]}))
        for m in ('RAM_inf', 'RAJ_inf'):
            if m in a and m in b and a[m][0] != b[m][i]:      # absent: the damage parameter was not requested (spec key want)
                out.append((W_BATCH, m, {'single': a[m][0], 'batch': b[m][i]}))
    elif k == 'refine':
        b = sums[1]
        for m in ('RAM_life', 'RAJ_life', 'RAM_times', 'RAJ_times'):
            if not close(a[m][0], b[m][0]):
                out.append((W_REFINE, m, {'original': a[m][0], 'refined': b[m][0]}))
        for m in ('RAM_inf', 'RAJ_inf'):
            if a[m][0] != b[m][0]:
                out.append((W_REFINE, m, {'original': a[m][0], 'refined': b[m][0]}))
    elif k in ('scale', 'rough', 'pa'):
        b = sums[1]
        what = {'scale': W_SCALE, 'rough': W_ROUGH, 'pa': W_PA}[k]
        for m in ('RAM_life', 'RAJ_life'):
            if not le(b[m][0], a[m][0]):
                out.append((what, m, {'before': a[m][0], 'after': b[m][0]}))
        for m in ('RAM_inf', 'RAJ_inf'):
            if b[m][0] and not a[m][0]:          # finite life must not become infinite
                out.append((what, m, {'before': a[m][0], 'after': b[m][0]}))
    elif k == 'quantiles':
        for t in ('RAM', 'RAJ'):
            q = [a.get('%s_N_%s' % (t, x)) for x in ('10', '50', '90')]
            if any(v is None for v in q):
                out.append((W_QUANT, t + '_N', {'missing': True}))
                continue
            q = [v[0] for v in q]
            if not (le(q[0], q[1]) and le(q[1], q[2])):
                out.append((W_QUANT, t + '_N', {'N_10': q[0], 'N_50': q[1], 'N_90': q[2]}))
    return out, False


def nontrivial(item, sums):
    """a relation instance that exercises the mechanism: finite life on at least one side (damage was accumulated)"""
    try:
        return any(math.isfinite(s[m][0]) and s[m][0] > 0 for s in sums if 'error' not in s for m in ('RAM_life', 'RAJ_life') if m in s)
    except Exception:
        return False


# ------------------------------------------------------------------ known-finding classes (narrow, decidable on the input)

def cls_praj_shared_class_max(d):
    """P_RAJ quantity of a point in a batch in which some other point carries larger loads: the P_RAJ class limits are derived
    from the maximum stress over ALL points (damage_parameter.P_RAJ: P_RAJ_klass_max)"""
    it = d['item']
    if it['kind'] != 'batch' or not d['measure'].startswith('RAJ') or d['measure'] == 'RAJ_inf':
        return False
    r = it['specs'][1]['ratios']
    return max(r) > r[it['i']]


def cls_class_edge_batch(d):
    """a point other than the reference point of a batch whose sequence has a load or load range exactly on a look-up class edge
    (multiple of max|load|/100): the class is chosen for all points from the float rounding at the reference point
    (notch_approximation_law.Binned: the point with the largest maximum load, first one on ties; it was the first point before the C07 repair)"""
    it = d['item']
    if it['kind'] != 'batch':
        return False
    r = it['specs'][1]['ratios']
    ref = max(range(len(r)), key=lambda k: (r[k], -k))
    if it['i'] == ref:
        return False
    return edge_dist(it['specs'][1]['seq']) < EDGE


def cls_class_edge_scale(d):
    """single point, sequence with a load or load range exactly on a look-up class edge: after scaling, c*x and (k/100)*(c*max)
    round differently, the class changes by one"""
    it = d['item']
    if it['kind'] != 'scale' or d['measure'] not in ('RAM_life', 'RAJ_life'):
        return False
    return edge_dist(it['specs'][0]['seq']) < EDGE


def cls_trailing_repeat(d):
    """the refined sequence repeats its last sample (trailing plateau) although the original does not: the first HCM run then
    defers the last turning point (flush decision of _adjust_samples_and_flush_for_hcm_first_run)"""
    it = d['item']
    if it['kind'] != 'refine':
        return False
    a, b = it['specs'][0]['seq'], it['specs'][1]['seq']
    return len(b) >= 2 and b[-1] == b[-2] and not (len(a) >= 2 and a[-1] == a[-2])


def classing_error(spec):
    """relative distance of the P_RAJ lifetime from the lifetimes with 10 and 100 times as many P_RAJ classes (the larger one)"""
    nb = int(spec['params'].get('n_bins', 200))
    fine = [dict(spec, params=dict(spec['params'], n_bins=nb * f)) for f in (10, 100)]
    o = fkmnl.run_jobs([('assess', spec)] + [('assess', f) for f in fine])
    if any('error' in x for x in o):
        return 0.0
    a = o[0]['RAJ_life'][0]
    err = 0.0
    for x in o[1:]:
        b = x['RAJ_life'][0]
        if math.isfinite(a) and math.isfinite(b) and b > 0:
            err = max(err, abs(a - b) / b)
    return err


def cls_praj_classing(d):
    """P_RAJ lifetime (finite) growing by less than the classing error of the input: the P_RAJ damage sum is evaluated on
    n_bins logarithmic classes (DamageCalculatorPRAJ), the class of the current fatigue limit enters through its mid-point; the
    resulting error (measured as the larger of |life(n_bins) - life(k n_bins)| / life(k n_bins), k = 10, 100) is a saw-tooth in every continuous input"""
    it = d['item']
    if it['kind'] not in ('scale', 'rough', 'pa') or d['measure'] != 'RAJ_life':
        return False
    ob = d['observed']['RAJ_life']
    before, after = ob['before'], ob['after']
    if not (math.isfinite(before) and math.isfinite(after)) or before <= 0:
        return False
    inc = after / before - 1
    err = max(classing_error(s) for s in it['specs'])
    d['classing_error'] = err
    return inc <= err


def cls_praj_compressive(d):
    """P_RAJ lifetime / infinite-life verdict of a load sequence without any tensile load (every load <= 0) that is not monotone
    when the loads grow (scaling, or a larger gamma_L for a smaller P_A): the hystereses have S_max < 0, R >= 1, for which
    damage_parameter.P_RAJ._compute_S_open sets S_open = S_max (the crack never opens inside the hysteresis); whether such a
    hysteresis damages then depends only on which case of the crack-opening history (_compute_crack_opening_loop cases 1/2/3)
    the previous hysteresis fell into, and that case flips back and forth as the loads grow"""
    it = d['item']
    if it['kind'] not in ('scale', 'pa') or d['measure'] not in ('RAJ_life', 'RAJ_inf', 'RAJ_times'):
        return False
    return all(s.get('ratios') is None and max(s['seq']) <= 0.0 for s in it['specs'])


def cls_hcm_minmax_first_node(d):
    """P_RAJ quantity of a batch point other than the first whose recorded extreme strains of the load history (epsilon_min_LF /
    epsilon_max_LF, used by the crack-opening logic of P_RAJ) differ from those of its single assessment: the HCM updates them for
    all points by comparing the FIRST point's strain (_hcm_update_min_max_strain_values); with different amounts of plasticity the
    points do not reach a new extreme strain at the same samples"""
    it = d['item']
    if it['kind'] != 'batch' or it['i'] == 0 or not d['measure'].startswith('RAJ'):
        return False
    a, b = fkmnl.run_jobs([('assess', s) for s in it['specs']])
    if 'error' in a or 'error' in b:
        return False
    for col in ('epsilon_min_LF', 'epsilon_max_LF'):
        x, y = a['RAJ_col'][col][0], b['RAJ_col'][col][it['i']]
        if len(x) != len(y) or any(not close(u, v, 1e-9) for u, v in zip(x, y)):
            return True
    return False


def cls_praj_minq_coupling(d):
    """P_RAJ lifetime (not the verdict) of a batch point with per-point stress gradients whose P_RAJ fatigue-limit classes q differ, for a point
    whose own q is not the smallest: DamageCalculatorPRAJ._compute_xbar_minus_2 sums the classes from min(q) over ALL points and counts
    every class from there on twice (previous_j = j), so the damage sum of a point depends on the fatigue-limit class of the others"""
    it = d['item']
    if it['kind'] != 'batch' or not d['measure'].startswith('RAJ') or d['measure'] == 'RAJ_inf':
        return False
    if not isinstance(it['specs'][1].get('G'), list):
        return False
    b = fkmnl.run_jobs([('assess', it['specs'][1])])[0]
    q = b.get('RAJ_q')
    if 'error' in b or not q or len(q) != len(it['specs'][1]['ratios']):
        return False
    return min(q) < q[it['i']]


def cls_praj_crack_closed_from_zero(d):
    """P_RAJ lifetime / verdict under larger loads (scale, smaller P_A), where a hysteresis that did damage before gets P_RAJ = 0 after:
    damage_parameter.P_RAJ starts the crack-opening strain epsilon_open_alt at 0.0 (the comment one line above says -inf, FKM nonlinear
    2.9.7 point 2); after a large compressive plastic pre-strain a hysteresis reaching into tension (S_max > 0) has epsilon_max < 0 and is
    taken as 'crack does not open' (case 1): no damage, life reported infinite"""
    it = d['item']
    if it['kind'] not in ('scale', 'pa') or d['measure'] not in ('RAJ_life', 'RAJ_inf'):
        return False
    a, b = fkmnl.run_jobs([('assess', s) for s in it['specs']])
    if 'error' in a or 'error' in b or a['RAJ_n_hyst'] != b['RAJ_n_hyst']:
        return False
    ca, cb = a['RAJ_col'], b['RAJ_col']
    for pa_, pb_, smax in zip(ca['P_RAJ'][0], cb['P_RAJ'][0], cb['S_max'][0]):
        if pa_ > 0 and pb_ == 0 and smax > 0:
            return True
    return False


def cls_unsorted_node_ids(d):
    """batch whose node_id labels are not in ascending order: maximum_absolute_load (groupby('node_id')) and the zero sample prepended for the
    first HCM run sort the per-point values by label while the load samples are used in the caller's order: look-up tables, gamma_L and the
    initial sample land on the wrong points"""
    it = d['item']
    if it['kind'] != 'batch':
        return False
    ids = it['specs'][1].get('node_ids')
    return bool(ids) and list(ids) != sorted(ids)


def _struct_differs(a, b, i):
    """output of the HCM stage for point i of the batch summary b vs the single summary a: hystereses (number, closed flags, runs, loads)
    and their stresses / strains (which branch of the stress-strain path a sample was put on is an HCM decision as well)"""
    for t in ('RAM', 'RAJ'):
        if (t + '_col') not in a or (t + '_col') not in b:
            continue
        if a[t + '_n_hyst'] != b[t + '_n_hyst']:
            return True
        for col in ('is_closed_hysteresis', 'run_index', 'loads_min', 'loads_max', 'S_a', 'S_m', 'epsilon_a'):
            x, y = a[t + '_col'][col][0], b[t + '_col'][col][i]
            if len(x) != len(y) or not all(close(u, v, 1e-12) or (math.isnan(u) and math.isnan(v)) for u, v in zip(x, y)):
                return True
    return False


def _raised(it, pred, target):
    """the batch relation instance `it` with the ratio of every point k for which pred(k) holds multiplied up so that target(k) is reached"""
    bs = it['specs'][1]
    ratios = list(bs['ratios'])
    for k in range(len(ratios)):
        if pred(k):
            ratios[k] = ratios[k] * target(k)
    i = it['i']
    G = bs['G']
    single = dict(it['specs'][0], seq=times(bs['seq'], ratios[i]), G=G[i] if isinstance(G, list) else G)
    return dict(it, specs=[single, dict(bs, ratios=ratios)])


def cls_hcm_abs_tolerance(d):
    """P_RAM quantity of a batch point where the first point's loads, or the point's own, are so small that two DIFFERENT compared loads /
    load extents differ by less than (4 x) the absolute tolerance 1e-12 of the HCM's comparisons (FKMNonlinearDetector: `> load_max_seen+1e-12`,
    `< previous_load_extent-1e-12` ... on the loads of the FIRST point): the decisions taken for the batch are not the decisions of the point's
    single assessment.  Decided by (a) the input (sub_tolerance at point 0 or i), (b) the output of the HCM stage for the point (hystereses, their
    stresses and strains) differs between batch and single, (c) the difference vanishes when the sub-tolerance points are loaded just enough (still almost unloaded) to clear the tolerance"""
    it = d['item']
    if it['kind'] != 'batch' or not d['measure'].startswith('RAM'):
        return False
    bs, i = it['specs'][1], it['i']
    seq = bs['seq']
    sub = [k for k in sorted({0, i}) if sub_tolerance(seq, eff_factor(bs, k))]
    if not sub:
        return False
    a, b = fkmnl.run_jobs([('assess', s_) for s_ in it['specs']])
    if 'error' in a or 'error' in b or not _struct_differs(a, b, i):
        return False
    d_min = decision_margins(seq)[0]
    it2 = _raised(it, lambda k: k in sub, lambda k: 8 * HCM_TOL / (eff_factor(bs, k) * d_min))
    outs = fkmnl.run_jobs([('assess', s_) for s_ in it2['specs']])
    viol, rej = judge(it2, outs)
    d['after raising the sub-tolerance points'] = {'ratios': it2['specs'][1]['ratios'], 'violations': [wname(w, m) for w, m, _ in viol]}
    return not rej and not any(m.startswith('RAM') for w, m, _ in viol)


SB_TOL = 1e-4      # absolute tolerance (and size of the secant method's first step) of the Seeger-Beste solvers that fill the P_RAJ look-up tables


def cls_praj_batch_near_zero_point(d):
    """the call for a batch raises in the P_RAJ branch (RuntimeError of a Newton iteration) although every point is accepted alone and the
    P_RAM branch of the same batch runs, and the batch contains a point whose maximum effective load is below the absolute tolerance 1e-4 of
    the Seeger-Beste table solver: solved together with the other points (vectorised secant method, absolute first step 1e-4, joint
    termination) the table of that point is filled with values of the wrong magnitude (stress of 6.75 for a load of 4e-7), the
    crack-opening computation of P_RAJ then fails on nan.  Decided by the input, and: the same batch runs when these points are loaded to
    1e-2"""
    it = d['item']
    if it['kind'] != 'batch' or d.get('measure') != 'call':
        return False
    bs = it['specs'][1]
    M = max(abs(v) for v in bs['seq'])
    near0 = [k for k in range(len(bs['ratios'])) if eff_factor(bs, k) * M < SB_TOL]
    if not near0:
        return False
    ram_only = fkmnl.run_jobs([('assess', dict(bs, want=['ram']))])[0]
    if 'error' in ram_only:
        return False
    it2 = _raised(it, lambda k: k in near0, lambda k: 1e-2 / (eff_factor(bs, k) * M))
    outs = fkmnl.run_jobs([('assess', s_) for s_ in it2['specs']])
    d['after raising the near-zero points'] = {'ratios': it2['specs'][1]['ratios'], 'errors': [o.get('error') for o in outs]}
    return not any('error' in o for o in outs)


def register_classes(res):
    res.classes['hcm_abs_tolerance_first_node'] = cls_hcm_abs_tolerance
    res.classes['praj_batch_near_zero_point'] = cls_praj_batch_near_zero_point
    res.classes['unsorted_node_ids'] = cls_unsorted_node_ids
    res.classes['praj_minq_coupling'] = cls_praj_minq_coupling
    res.classes['praj_crack_closed_from_zero'] = cls_praj_crack_closed_from_zero
    res.classes['hcm_minmax_strain_first_node'] = cls_hcm_minmax_first_node
    res.classes['praj_shared_class_max'] = cls_praj_shared_class_max
    res.classes['class_edge_batch'] = cls_class_edge_batch
    res.classes['class_edge_scale'] = cls_class_edge_scale
    res.classes['trailing_repeated_sample'] = cls_trailing_repeat
    res.classes['praj_classing_error'] = cls_praj_classing
    res.classes['praj_compressive'] = cls_praj_compressive


def wname(what, measure):
    if what == W_ERR:
        return what
    tag = {'RAM_life': 'P_RAM lifetime', 'RAJ_life': 'P_RAJ lifetime', 'RAM_times': 'P_RAM lifetime', 'RAJ_times': 'P_RAJ lifetime',
           'RAM_inf': 'P_RAM infinite-life verdict', 'RAJ_inf': 'P_RAJ infinite-life verdict'}.get(measure)
    if tag is None:      # N_10 / N_50 / N_90
        tag = ('P_RAM' if measure.startswith('RAM') else 'P_RAJ') + (' lifetime' if what == W_BATCH else ' N_10/50/90')
    return '%s (%s)' % (what, tag)


# ------------------------------------------------------------------ contracts of the Coq stages, checked on stage outputs

def contract_checks(res, items, table):
    """table: key(spec) -> summary.  Each contract is one obligation over all sampled instances; a failure names the instance."""
    bad = {}

    def fail(name, detail):
        bad.setdefault(name, []).append(detail)
    names = ['contract struct_scale/closed_scale/run_scale: scaling the loads scales the counted hystereses, flags and runs unchanged',
             'contract struct_refines: inserted non-reversal samples leave the hysteresis table unchanged',
             'contract eval_scale: damage parameter of every hysteresis not smaller for larger loads (table scaled along)',
             'contract damage per cycle: D = 1/N (closed) or 0.5/N (memory 3) with N from the component curve',
             'contract w_P / w_Z: curve N antitone in P and isotone in the knee',
             'contract gamma_ok: effective loads after gamma_L and c grow with the scale factor, gamma_L > 0',
             'model aggregators: table maximum per point (a2 = own); class maximum per point or batch maximum (a3)',
             'contract look-up tables: binned notch law monotone in the load, table maximum = maximum absolute load',
             'model knee per point (Layout.v, rows ordered (hysteresis, point)): N of row (h, i) = 1e3 (P_RAM / P_RAM_Z[i])^(1/d) with the knee of point i',
             'model decisions at the first point (Decide.v): where every compared load pair is separated by more than the tolerance 1e-12 at the first point and at point i, '
             'the hystereses counted for point i in the batch (number, closed flags, runs, loads) are those of its single assessment']
    counts = dict.fromkeys(names, 0)
    curve_jobs, curve_meta = [], []
    knee_seen = set()
    for it in items:
        sums = [table.get(key(s)) for s in it['specs']]
        if any(s is None or 'error' in s for s in sums):
            continue
        a = sums[0]
        edge = edge_dist(it['specs'][0]['seq']) < EDGE
        if it['kind'] == 'scale':
            b = sums[1]
            for t in ('RAM', 'RAJ'):
                ca, cb = a[t + '_col'], b[t + '_col']
                counts[names[0]] += 1
                if a[t + '_n_hyst'] != b[t + '_n_hyst'] or ca['is_closed_hysteresis'] != cb['is_closed_hysteresis'] or ca['run_index'] != cb['run_index']:
                    fail(names[0], {'item': it, 'branch': t})
                    continue
                la = ca['loads_min'][0] + ca['loads_max'][0]
                lb = cb['loads_min'][0] + cb['loads_max'][0]
                rs = [y / x for x, y in zip(la, lb) if x != 0 and not math.isnan(x)]
                if rs and not (all(close(r, rs[0], 1e-9) for r in rs) and rs[0] >= 1 - 1e-12):
                    fail(names[0], {'item': it, 'branch': t, 'load ratios': rs[:6]})
                if not edge:
                    counts[names[2]] += 1
                    pa_, pb_ = ca['P_' + t][0], cb['P_' + t][0]
                    if t == 'RAM' and not all(le(x, y) for x, y in zip(pa_, pb_)):
                        fail(names[2], {'item': it, 'P before': pa_, 'P after': pb_})
            if a.get('RAM_Lmax') and b.get('RAM_Lmax'):
                counts[names[5]] += 1
                la, lb = a['RAM_Lmax'][0], b['RAM_Lmax'][0]
                if not (la > 0 and lb >= la * (1 - 1e-12)):
                    fail(names[5], {'item': it, 'Lmax': [la, lb]})
        if it['kind'] == 'refine' and not cls_trailing_repeat({'item': it}):     # the contract excludes a repeated LAST sample (Pipeline.ins1)
            b = sums[1]
            for t in ('RAM', 'RAJ'):
                counts[names[1]] += 1
                ca, cb = a[t + '_col'], b[t + '_col']
                for col in ('loads_min', 'loads_max', 'S_a', 'S_m', 'epsilon_a', 'is_closed_hysteresis', 'run_index'):
                    x, y = ca[col][0], cb[col][0]
                    if len(x) != len(y) or not all(close(u, v, 1e-12) or (math.isnan(u) and math.isnan(v)) for u, v in zip(x, y)):
                        fail(names[1], {'item': it, 'branch': t, 'column': col})
                        break
        if it['kind'] == 'batch' and not cls_unsorted_node_ids({'item': it}):     # known class: tables sorted by label, not by position
            b, i = sums[1], it['i']
            tags = [t for t in ('RAM', 'RAJ') if (t + '_life') in a and (t + '_life') in b]     # the requested damage parameters (spec key want)
            if tags and all(x.get(t + '_Lmax') for x in (a, b) for t in tags):
                counts[names[6]] += 1
                if any(not close(b[t + '_Lmax'][i], a[t + '_Lmax'][0], 1e-12) for t in tags):
                    fail(names[6], {'item': it, 'table maximum batch/single': [[b[t + '_Lmax'][i], a[t + '_Lmax'][0]] for t in tags]})
            # decisions of the HCM are taken on the first point's loads: they are the point's own decisions when both are clear of the tolerance
            bs = it['specs'][1]
            if tags and decisions_clear(bs['seq'], eff_factor(bs, 0)) and decisions_clear(bs['seq'], eff_factor(bs, i)):
                counts[names[9]] += 1
                for t in tags:
                    ca, cb = a[t + '_col'], b[t + '_col']
                    why = None
                    if a[t + '_n_hyst'] != b[t + '_n_hyst']:
                        why = {'hystereses single/batch': [a[t + '_n_hyst'], b[t + '_n_hyst']]}
                    else:
                        for col in ('is_closed_hysteresis', 'run_index', 'loads_min', 'loads_max'):
                            x, y = ca[col][0], cb[col][i]
                            if len(x) != len(y) or not all(close(u, v, 1e-12) or (math.isnan(u) and math.isnan(v)) for u, v in zip(x, y)):
                                why = {'column': col, 'single': x[:8], 'batch': y[:8]}
                                break
                    if why:
                        fail(names[9], dict({'item': it, 'branch': t, 'first point effective factor': eff_factor(bs, 0)}, **why))
                        break
            km_b, km_a = b.get('RAJ_klass_max'), a.get('RAJ_klass_max')
            if km_b and km_a:
                # the class maximum is a P_RAJ value from the iteratively filled Seeger-Beste tables: batch and single solves end on slightly
                # different iterates (RT_SOLVER, observed up to 1e-6); own vs batch maximum differ by >= 1e-3 when they differ
                own_ok = close(km_b[i], km_a[0], RT_SOLVER)
                max_ok = close(km_b[i], max(km_b), 1e-12) and max(km_b) >= km_a[0] * (1 - RT_SOLVER)
                if not (own_ok or max_ok):
                    fail(names[6], {'item': it, 'klass_max batch': km_b, 'single': km_a})
        if it['kind'] == 'batch' and key(it['specs'][1]) not in knee_seen:
            knee_seen.add(key(it['specs'][1]))
            b = sums[1]
            col, Z = b['RAM_col'], b.get('P_RAM_Z')
            if Z and col.get('N') and col.get('P_RAM'):
                counts[names[8]] += 1
                # for P_A = 0.5 the N column is left by the last call of N_max_bearable: the knee shifted by knee_PA (Pipeline.v) for one
                # of the reported probabilities -- one common factor for all points
                shifts = [1.0] + ([knee_shift(it['specs'][1], q) for q in (1e-6, 0.1, 0.5, 0.9)] if 'RAM_N_90' in b else [])
                ok_f = first_bad = None
                for f in shifts:
                    bad_row = None
                    for i in range(b['n_points']):
                        for Pv, Nv in zip(col['P_RAM'][i], col['N'][i]):
                            if not (Pv > 0 and Z[i] > 0):
                                continue
                            zi = Z[i] * f
                            want = 1e3 * (Pv / zi) ** (1 / (b['d_1'] if Pv >= zi else b['d_2']))
                            if not close(Nv, want, 1e-9):
                                bad_row = {'item': it, 'point': i, 'P_RAM': Pv, 'knees': Z, 'N implementation': Nv, 'N with the knee of the point': want}
                                break
                        if bad_row:
                            break
                    if bad_row is None:
                        ok_f = f
                        break
                    first_bad = first_bad or bad_row
                if ok_f is None:
                    fail(names[8], first_bad)
        # per-summary checks on the reference call
        if it['kind'] in ('scale', 'refine'):
            counts[names[3]] += 1
            col = a['RAM_col']
            for Pv, Nv, Dv, cl in zip(col['P_RAM'][0], col['N'][0], col['D'][0], col['is_closed_hysteresis'][0]):
                want = (1.0 if cl == 1.0 else 0.5) / Nv if Nv > 0 else float('inf')
                if not close(Dv, want, 1e-12):
                    fail(names[3], {'item': it, 'P_RAM': Pv, 'N': Nv, 'D': Dv})
                    break
            for t in ('RAM', 'RAJ'):
                if not a.get(t + '_lut'):
                    continue
                counts[names[7]] += 1
                lut = a[t + '_lut'][0]
                nb = a[t + '_nbins']
                ok = (len(lut['load']) == nb and len(lut['dload']) == 2 * nb and close(lut['load'][-1], a[t + '_Lmax'][0], 1e-12)
                      and close(lut['dload'][-1], 2 * a[t + '_Lmax'][0], 1e-12)
                      and all(x < y for x, y in zip(lut['load'], lut['load'][1:])) and all(x <= y for x, y in zip(lut['stress'], lut['stress'][1:]))
                      and all(x <= y for x, y in zip(lut['strain'], lut['strain'][1:])) and all(x <= y for x, y in zip(lut['dstress'], lut['dstress'][1:]))
                      and all(x <= y for x, y in zip(lut['dstrain'], lut['dstrain'][1:])) and lut['stress'][0] > 0 and lut['dstress'][0] > 0)
                if not ok:
                    fail(names[7], {'item': it, 'branch': t})
        if it['kind'] == 'rough':
            b = sums[1]
            grid = [a['P_RAM_D'][0] * f for f in (0.3, 0.7, 0.999, 1.0, 1.001, 1.5, 3.0)] + [a['P_RAM_Z'][0] * f for f in (0.5, 0.999, 1.0, 1.001, 2.0, 5.0)]
            grid.sort()
            for s_ in (a, b):
                curve_jobs.append(('curve', ('RAM', {'P_RAM_Z': s_['P_RAM_Z'][0], 'P_RAM_D': s_['P_RAM_D'][0], 'd_1': s_['d_1'], 'd_2': s_['d_2']}, grid)))
            curve_meta.append((it, a, b, grid))
    if curve_jobs:
        outs = fkmnl.run_jobs(curve_jobs, procs=1)
        for j, (it, a, b, grid) in enumerate(curve_meta):
            na, nb_ = outs[2 * j], outs[2 * j + 1]
            counts[names[4]] += 1
            if isinstance(na, dict) or isinstance(nb_, dict):
                fail(names[4], {'item': it, 'error': str(na)[:200]})
                continue
            if not all(le(y, x) for x, y in zip(na, na[1:])):
                fail(names[4], {'item': it, 'grid': grid, 'N': na})
            if le(b['P_RAM_Z'][0], a['P_RAM_Z'][0]) and not all(le(y, x) for x, y in zip(na, nb_)):
                fail(names[4], {'item': it, 'grid': grid, 'N knee high': na, 'N knee low': nb_})
    for nme in names:
        res.oblige('%s [%d instances]' % (nme, counts[nme]), nme not in bad, json.dumps(bad.get(nme, [])[:2], default=str)[:3000])
    res.cov['contract_instances'] = {n.split(':')[0]: c for n, c in counts.items()}
    return bad


def accumulate_contract(res, rng, items, table, n):
    """contract acc_antitone on DamageCalculatorPRAM itself: raising the damage parameter of some hystereses never lengthens the life;
    and the tie of bearableM: N_max_bearable(P_A) is the same accumulation with the knee multiplied by 10^(lg f25 - (0.8 beta - 2) 0.08)"""
    refs = []
    for it in items:
        if it['kind'] in ('scale', 'quantiles'):
            s = table.get(key(it['specs'][0]))
            if s and 'error' not in s and s['RAM_n_hyst'] > 0:
                refs.append((it, s))
    rng.shuffle(refs)
    refs = refs[:n]
    jobs, meta = [], []
    for it, s in refs:
        col = {k: v[0] for k, v in s['RAM_col'].items() if v is not None}
        pars = {'P_RAM_Z': s['P_RAM_Z'][0], 'P_RAM_D': s['P_RAM_D'][0], 'd_1': s['d_1'], 'd_2': s['d_2']}
        nh = len(col['P_RAM'])
        up = [1.0 + (rng.choice([0, 0.02, 0.3]) if rng.random() < 0.6 else 0.0) for _ in range(nh)]
        jobs.append(('acc', (col, pars, [1.0] * nh)))
        jobs.append(('acc', (col, pars, up)))
        meta.append((it, s, up))
    outs = fkmnl.run_jobs(jobs, procs=1) if jobs else []
    bad = []
    for j, (it, s, up) in enumerate(meta):
        o1, o2 = outs[2 * j], outs[2 * j + 1]
        if isinstance(o1, dict) or isinstance(o2, dict):
            bad.append({'item': it, 'error': str(o1)[:300] + str(o2)[:300]})
            continue
        if not close(o1[0], s['RAM_life'][0], 1e-9) or o1[1] != s['RAM_inf'][0]:
            bad.append({'item': it, 'recomputed': o1, 'assessment': [s['RAM_life'][0], s['RAM_inf'][0]]})
        elif not le(o2[0], o1[0]):
            bad.append({'item': it, 'factors': up, 'life before/after': [o1[0], o2[0]]})
    res.oblige('contract acc_antitone: DamageCalculatorPRAM on the recorded hysteresis table reproduces the lifetime; larger damage parameters never lengthen it [%d instances]' % len(meta),
               not bad, json.dumps(bad[:2], default=str)[:3000])
    return bad


BETA_TABLE = {1e-7: 5.20, 1e-6: 4.75, 1e-5: 4.27, 7.2e-5: 3.8, 1e-3: 3.09, 2.3e-1: 0.739, 0.5: 0.0}


def gamma_model(params, M):
    """the load safety factor of Pipeline.v (gamma_normal / gamma_const) for the parameter set, M = maximum absolute load"""
    p = dict(fkmnl.BASE_PARAMS)
    p.update(params or {})
    p = {k: v for k, v in p.items() if v is not None}
    if 's_L' in p or 'LSD_s' in p:
        beta = BETA_TABLE[min(BETA_TABLE, key=lambda q: abs(q - p['P_A']))]
        fac = (0.7 * beta - 2) if abs(p['P_L'] - 2.5) < 1e-9 else 0.7 * beta
        if 's_L' in p:
            return (M + fac * p['s_L']) / M          # gamma_normal alpha M
        return max(1.0, 10 ** (fac * p['LSD_s']))     # gamma_const
    return 1.1 if abs(p['P_L'] - 2.5) < 1e-9 else 1.0  # gamma_const


def knee_shift(spec, pa):
    """factor of knee_PA (Pipeline.v): 10^(lg f25 - (0.8 beta(pa) - 2) 0.08), the knee used by N_max_bearable(pa) of the P_RAM calculator"""
    import pylife.strength.fkm_nonlinear.parameter_calculations as PC
    import pylife.strength.fkm_nonlinear.constants as K
    import pandas as pd
    mg = dict(fkmnl.BASE_PARAMS, **{k: v for k, v in (spec.get('params') or {}).items() if v is not None})['MatGroupFKM']
    f25 = float(K.for_material_group(pd.Series({'MatGroupFKM': mg})).f_25percent_material_woehler_RAM)
    return 10 ** (math.log10(f25) - (0.8 * float(PC.compute_beta(pa)) - 2) * 0.08)


def gamma_contract(res, items, n):
    """contract gamma_ok + tie of gamma_normal / gamma_const: the sequence entering HCM is gamma_L(L_max) * c * sequence with the model's
    factor; for the scaled sequence it is a common multiple c' >= 1 of the unscaled one"""
    sc = [it for it in items if it['kind'] == 'scale'][:n]
    jobs = []
    for it in sc:
        jobs += [('prep', it['specs'][0]), ('prep', it['specs'][1])]
    outs = fkmnl.run_jobs(jobs, procs=1) if jobs else []
    bad = []
    for j, it in enumerate(sc):
        a, b = outs[2 * j], outs[2 * j + 1]
        if 'error' in a or 'error' in b:
            continue
        seq = it['specs'][0]['seq']
        M = max(abs(v) for v in seq)
        cfac = dict(fkmnl.BASE_PARAMS, **{k: v for k, v in it['specs'][0]['params'].items() if v is not None})['c']
        want = gamma_model(it['specs'][0]['params'], M) * cfac
        fa = [y / x for x, y in zip(seq, a['scaled'][0]) if x != 0]
        rs = [y / x for x, y in zip(a['scaled'][0], b['scaled'][0]) if x != 0]
        if not fa or not all(close(f, want, 1e-12) for f in fa) or want <= 0:
            bad.append({'item': it, 'factor implementation': fa[:3], 'factor model': want})
        elif not (all(close(r, rs[0], 1e-12) for r in rs) and rs[0] >= 1 - 1e-12):
            bad.append({'item': it, 'ratios scaled/unscaled': rs[:4]})
        elif not close(a['Lmax'][0], max(abs(v) for v in a['scaled'][0]), 1e-15):
            bad.append({'item': it, 'table maximum': a['Lmax'][0]})
    # the factor tie alone for every failure probability of the table (specs of the P_A chains; no assessment call needed)
    cs = {}
    for it in items:
        if it.get('chain'):
            for sp in it['specs']:
                cs.setdefault(key(sp), sp)
    cs = list(cs.values())[:7 * n]
    outs = fkmnl.run_jobs([('prep', sp) for sp in cs], procs=1) if cs else []
    n_tab = 0
    for sp, a in zip(cs, outs):
        if 'error' in a:
            continue
        n_tab += 1
        M = max(abs(v) for v in sp['seq'])
        cfac = dict(fkmnl.BASE_PARAMS, **{k: v for k, v in sp['params'].items() if v is not None})['c']
        want = gamma_model(sp['params'], M) * cfac
        fa = [y / x for x, y in zip(sp['seq'], a['scaled'][0]) if x != 0]
        if not fa or not all(close(f, want, 1e-12) for f in fa) or want <= 0:
            bad.append({'spec': sp, 'factor implementation': fa[:3], 'factor model': want})
    res.oblige('contract gamma_ok / tie gamma_normal, gamma_const: load entering HCM = gamma_L(L_max) * c * load with the model factor; scaled sequence a common multiple >= 1; '
               'table maximum = maximum absolute load [%d instances + %d table probabilities]' % (len(sc), n_tab), not bad, json.dumps(bad[:2], default=str)[:3000])
    return bad


def beta_contract(res):
    import pylife.strength.fkm_nonlinear.parameter_calculations as PC
    ps = [1e-7, 1e-6, 1e-5, 7.2e-5, 1e-3, 0.02, 0.1, 0.23, 0.3, 0.5, 0.7, 0.9, 0.99]
    try:
        bs = [float(PC.compute_beta(p)) for p in ps]
        ok = all(y <= x + 1e-9 for x, y in zip(bs, bs[1:])) and abs(bs[ps.index(0.5)]) < 1e-6 and bs[0] > 5 and bs[-1] < -2
        detail = list(zip(ps, bs))
    except Exception as e:
        ok, detail = False, repr(e)
    res.oblige('contract beta_antitone: compute_beta antitone in P_A on %d probabilities, beta(0.5) = 0' % len(ps), ok, detail)
    return ok


def bearable_tie(res, items, table):
    """tie of bearableJ / knee_PA to get_lifetime_functions: N_xx(P_RAJ) = life * 10^((lg f25 - (0.8 beta - 2) 0.155) |1/d|)"""
    import pylife.strength.fkm_nonlinear.parameter_calculations as PC
    import pylife.strength.fkm_nonlinear.constants as K
    import pandas as pd
    bad, n = [], 0
    betas = {q: float(PC.compute_beta(p)) for q, p in (('10', 0.1), ('50', 0.5), ('90', 0.9))}
    for it in items:
        if it['kind'] != 'quantiles':
            continue
        s = table.get(key(it['specs'][0]))
        if not s or 'error' in s or 'RAJ_N_10' not in s:
            continue
        mg = it['specs'][0]['params'].get('MatGroupFKM', 'Steel')
        f25 = float(K.for_material_group(pd.Series({'MatGroupFKM': mg})).f_25percent_material_woehler_RAJ)
        for q, b in betas.items():
            n += 1
            want = s['RAJ_life'][0] * 10 ** ((math.log10(f25) - (0.8 * b - 2) * 0.155) * abs(1 / s['d_RAJ']))
            if not close(want, s['RAJ_N_' + q][0], 1e-9):
                bad.append({'item': it, 'q': q, 'model': want, 'impl': s['RAJ_N_' + q][0]})
    res.oblige('tie bearableJ: P_RAJ N_10/50/90 = life * 10^((lg f25 - (0.8 beta - 2) 0.155) |1/d|) [%d values]' % n, not bad, json.dumps(bad[:2], default=str)[:2000])
    return bad


# ------------------------------------------------------------------ run

def evaluate(res, items, reported=None):
    """run the unique specs of the items, judge every relation, record violations; returns (table, n_rejected, n_nontrivial)"""
    specs = {}
    for it in items:
        for s in it['specs']:
            specs.setdefault(key(s), s)
    keys = list(specs)
    outs = fkmnl.run_jobs([('assess', specs[k]) for k in keys])
    table = dict(zip(keys, outs))
    rejected, nontriv = 0, set()
    reported = {} if reported is None else reported
    machinery = [o for o in outs if 'error' in o and o['error'].startswith('worker')]
    if machinery:
        res.oblige('assessment workers ran', False, machinery[0])
    for it in items:
        sums = [table[key(s)] for s in it['specs']]
        viol, rej = judge(it, sums)
        if rej:
            rejected += 1
            continue
        if nontrivial(it, sums):
            nontriv.add(key(it['specs']))
        grouped = {}
        for what, measure, detail in viol:
            grouped.setdefault(wname(what, measure), []).append((measure, detail))
        for w, lst in grouped.items():
            if reported.get(w, 0) >= 3:
                continue
            new = res.violation(w, item=it, measure=lst[0][0], observed={m: d for m, d in lst}, edge_distance=edge_dist(it['specs'][0]['seq']))
            if new:
                reported[w] = reported.get(w, 0) + 1
    return table, rejected, len(nontriv)


def corpus_items():
    d = os.path.join(common.CORPUS, 'C10')
    out = []
    if os.path.isdir(d):
        for f in sorted(os.listdir(d)):
            if f.endswith('.json'):
                out.append(json.load(open(os.path.join(d, f))))
    return out


def still_fails(entry):
    it = entry['witness']['item']
    outs = fkmnl.run_jobs([('assess', s) for s in it['specs']])
    viol, rej = judge(it, outs)
    return any(wname(w, m) == entry['what'] for w, m, _ in viol)


def run(res):
    quick = res.tier == 'quick'
    rng = res.rng
    register_classes(res)
    res.trusted += ['contracts of the abstract stages of coq/theories/Assess/Pipeline.v are checked on sampled stage outputs, not proved (C04/C05/C07/C09 own the stage models)',
                    'harness/fkmnl.py (runner, extraction of stage outputs), relation judge in harness/props/c10.py',
                    'axioms: ClassicalDedekindReals.sig_forall_dec, sig_not_dec, functional_extensionality_dep (Coq Reals), Classical_Prop.classic']
    res.assumptions += ['float rounding is outside the theorems; relations are compared at 1e-9 relative, class-edge effects (1e-3..1e-1) are reported, not absorbed',
                        'loads of all points of a batch are positive multiples of one sequence (precondition of the vectorised assessment)',
                        'P_RAJ crack-opening loop / class summation not modelled beyond the dependence on the shared class maximum',
                        'separation of the compared load pairs (obligation model decisions at the first point, class hcm_abs_tolerance_first_node) is computed on a superset of what the HCM compares '
                        '(absolute loads of all samples and 0, extents between any two of them), with a factor 4 on the tolerance for rounding; batches with an almost unloaded point are assessed with '
                        'calculate_P_RAJ=False in the quick tier (the P_RAJ branch of such batches raises for one sequence in three: known finding praj-batch-near-zero-point)']
    res.cov['rule'] = ('cases: sequence = library test sequence (round numbers, loads on class edges) | the same jittered by <= 3 % and rescaled | random (2..16 samples, '
                       'amplitude 120..420, some with offset) | ties (random with repeated / nearly repeated extremes); parameters: load distribution normal/lognormal/blanket/none, P_A from the FKM table or free, P_L, R_m, material group, '
                       'R_z, K_p, c, G (0.05..30 1/mm: mild and sharp notches); per case the relations batch (2..5 points, ratios 0.2..3, uniform or per-point G with different component '
                       'curves, node_id labels 0..n-1 / offset / with gaps / not ascending, reference point at a random position; quick: 2 points compared, '
                       'thorough: all; plus one batch per case (2..4 points, calculate_P_RAJ off, thorough: every fourth case with both) in which one point is almost unloaded: '
                       'ratio 1e-7.5..1e-10, thorough 1e-3..1e-15.5, at the first position in 5 of 7 cases -- the HCM decides on the first point\'s loads), refine (0..3 samples per segment: interpolated or repeated), scale (c in 1+1e-4..2), rougher R_z, smaller P_A (one random pair; for every second case with a load distribution additionally all 6 adjacent pairs of the P_A table with '
                       'scatter s_L up to 0.48 / 0.9 L_max or LSD_s up to 0.25), N_10<=N_50<=N_90 when P_A=0.5; '
                       'non-trivial = relation instance with a finite positive lifetime on one side (distinct spec pairs counted)')
    common.standard_proof_stage(res, 'C10')

    n_cases = 7 if quick else 95
    items = list(corpus_items())
    cases = [gen_items(rng, j, not quick) for j in range(n_cases)]
    for ci in cases:
        items += ci
    # ratio spread (drawn after the other relation instances, which therefore stay what they were for a given seed)
    for j, ci in enumerate(cases):
        items += gen_spread(rng, j, ci[0]['specs'][0], ci[0]['skind'], not quick)
    table, rejected, nontriv = evaluate(res, items)
    n_calls = len(table)
    res.add_cases(len(items), nontrivial=nontriv)
    res.cov['assessment_calls'] = n_calls
    res.cov['rejected_by_implementation'] = rejected
    kinds = {}
    for it in items:
        kinds[it['kind']] = kinds.get(it['kind'], 0) + 1
    res.cov['relation_instances'] = kinds
    # measured reach of the generator dimensions added for per-point data: batches whose points have different component curves
    # (sharp notches, n_bm > 1), node_id label layouts, P_A table chains with their largest load scatter
    bspecs = {key(it['specs'][1]): it['specs'][1] for it in items if it['kind'] == 'batch'}
    dk = 0
    for k_, sp in bspecs.items():
        z = (table.get(k_) or {}).get('P_RAM_Z') or []
        if len({round(v, 9) for v in z}) > 1:
            dk += 1
    res.cov['batches'] = len(bspecs)
    res.cov['batches_with_distinct_curve_knees'] = dk
    lay = {'default 0..n-1': 0, 'ascending (offset / gaps)': 0, 'not ascending': 0}
    for sp in bspecs.values():
        ids = sp.get('node_ids')
        lay['default 0..n-1' if not ids else 'ascending (offset / gaps)' if list(ids) == sorted(ids) else 'not ascending'] += 1
    res.cov['node_id_layouts'] = lay
    # ratio spread: batches with an almost unloaded point, where it stands, how small it is, and how far the first point's compared load
    # pairs are from the HCM's absolute tolerance (smallest difference between two distinct compared quantities, in units of the tolerance)
    sp_b = {key(it['specs'][1]): it for it in items if it['kind'] == 'batch' and min(it['specs'][1]['ratios']) < 1e-2}
    spread = {'batches': len(sp_b), 'almost_unloaded_point_first': 0, 'almost_unloaded_point_later': 0, 'with_P_RAJ': 0,
              'log10_smallest_ratio': [], 'first_point_max_effective_load': [], 'first_point_min_pair_difference_over_tolerance': [],
              'batch_call_raised': 0}
    for k_, it in sp_b.items():
        bs = it['specs'][1]
        t = min(range(len(bs['ratios'])), key=lambda k: bs['ratios'][k])
        spread['almost_unloaded_point_first' if t == 0 else 'almost_unloaded_point_later'] += 1
        spread['with_P_RAJ'] += 0 if bs.get('want') == ['ram'] else 1
        spread['log10_smallest_ratio'].append(round(math.log10(bs['ratios'][t]), 2))
        rho0 = eff_factor(bs, 0)
        spread['first_point_max_effective_load'].append(float('%.3g' % (rho0 * max(abs(v) for v in bs['seq']))))
        spread['first_point_min_pair_difference_over_tolerance'].append(float('%.3g' % (rho0 * decision_margins(bs['seq'])[0] / HCM_TOL)))
        spread['batch_call_raised'] += 1 if 'error' in table.get(k_, {}) else 0
    for k_ in ('log10_smallest_ratio', 'first_point_max_effective_load', 'first_point_min_pair_difference_over_tolerance'):
        v = sorted(spread[k_])
        spread[k_] = v if len(v) <= 12 else {'min': v[0], 'median': v[len(v) // 2], 'max': v[-1]}
    res.cov['ratio_spread'] = spread
    chains = [it for it in items if it.get('chain')]
    res.cov['pa_chain_pairs'] = len(chains)
    res.cov['pa_chain_pairs_finite'] = sum(1 for it in chains if nontrivial(it, [table[key(s_)] for s_ in it['specs']]))
    res.cov['sequence_kinds'] = {k: sum(1 for it in items if it.get('skind') == k and it['kind'] == 'refine') for k in ('suite', 'jitter', 'random', 'ties')}

    bad = contract_checks(res, items, table)
    bad_acc = accumulate_contract(res, rng, items, table, 6 if quick else 40)
    gamma_contract(res, items, 7 if quick else 60)
    beta_contract(res)
    res.cov['internals_unavailable'] = sorted({x for s_ in table.values() for x in s_.get('internals_unavailable', [])})
    bearable_tie(res, items, table)
    for it in items[:3]:
        s = table.get(key(it['specs'][0]), {})
        res.sample({'kind': it['kind'], 'seq': it['specs'][0]['seq'], 'params': it['specs'][0]['params'],
                    'ratios': it['specs'][-1].get('ratios'), 'P_RAM_life': s.get('RAM_life'), 'P_RAJ_life': s.get('RAJ_life')})
    res.replay_known(still_fails)


def replay(res, rp):
    """re-evaluate the recorded failing relation instance on the implementation"""
    register_classes(res)
    v = rp.get('violation') or {}
    it = v.get('item')
    if not it:
        run(res)
        return res.finish()
    table, rejected, nontriv = evaluate(res, [it])
    res.add_cases(1, nontrivial=nontriv)
    for s in it['specs']:
        o = table[key(s)]
        print('spec', json.dumps(s)[:300])
        print('   ->', {k: o.get(k) for k in ('RAM_life', 'RAJ_life', 'RAM_inf', 'RAJ_inf', 'error') if k in o})
    return res.finish()
