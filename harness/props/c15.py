"""C15 -- failure probability = analytic overlap of the load and strength distributions.

Proof part: props/C15.v (theories/Strength/{Normal,GaussIntegral,C15}.v) about the py2coq-generated model of
`FailureProbability.pf_simple_load / pf_norm_load` (GenFailureProbability, regenerated on every run) and about the closed
form Phi((lm - sm)/sqrt(ls^2 + ss^2)), with Phi *defined* as 1/2 + RInt gauss 0 z / sqrt(2 pi).

Tie: (1) translator (a changed formula / limit / argument breaks the proofs that the generated model is the truncated overlap
integral), (2) per-run CoqInterval `integral` certificates: the kernel checks that what the implementation returned lies
within the stated tolerance of the closed form (pf_norm_load, quadrature) resp. of the generated / hand-written model
(pf_simple_load, pf_arbitrary_load), (3) the property's own relations on the implementation in floats on every run; these
double as the failing-input search.

The one borrowed mathematical fact (not formalised): int phi_ls(x) Phi((x - d)/ss) dx = Phi(-d / sqrt(ls^2 + ss^2))."""
import json
import math
import multiprocessing
import os

import numpy as np

import cert
import common
import gen_specs

MANIFEST = dict(
    text='Theorems (props/C15.v) over R with Phi defined as 1/2 + RInt(exp(-t^2/2), 0, z)/sqrt(2 pi) (Coquelicot), none axiomatised: '
         'Phi strictly increasing, symmetric, continuous, derivative phi, strictly between 0 and 1 (the Gaussian integral bound is proved, '
         'by differentiation under the integral sign); the model that py2coq regenerates from failure_probability.py on every run satisfies: '
         'pf_simple_load = Phi((log10 L - log10 S)/ss) = closed form at zero load scatter; pf_norm_load (quad idealised as the Riemann integral) '
         '= integral over +-16 load scatters of load density times strength distribution function, explicit limits are shifted by log10 of the '
         'load median; that model value increases strictly with the load median, decreases strictly with the strength median and lies in (0,1); '
         'the closed form Phi((lm-sm)/sqrt(ls^2+ss^2)) is in (0,1), increasing in load, decreasing in strength, complementary under exchange '
         'of load and strength, and tends to pf_simple_load as the load scatter vanishes; the hand-written trapezoid model of '
         'pf_arbitrary_load lies between 0 and the trapezoid sum of the density on an ascending grid (refuted without `ascending`) and does not increase with the strength median for one sampled density. Per run the kernel checks by CoqInterval `integral` '
         'certificates that the implementation\'s float results agree with the closed form / models on sampled inputs (relative 1e-6 down to '
         'P_f = 1e-12; pf_arbitrary_load: two calls on the same arrays), and the relations of the property are evaluated on the implementation, '
         'including sequences of calls on shared arrays / one object (arguments unmodified, repeated call identical, no dependence on the call history).',
    note=common.TB_NOTE + 'py2coq translator and its whitelist; CoqInterval (integral, interval); borrowed and NOT formalised: the Gaussian '
         'convolution identity int phi_ls(x) Phi((x-d)/ss) dx = Phi(-d/sqrt(ls^2+ss^2)) (stated as a Prop, used only as hypothesis of '
         'pf_norm_load_closed_form_partial); scipy.integrate.quad (QUADPACK) is idealised as the Riemann integral: what it really returns '
         'is certified per sample only, its behaviour between samples cannot be exhibited; float rounding, scipy.stats.norm, numpy trapezoid '
         'are outside the theorems (tied per sample).',
    technique='Coq proof over py2coq-generated real-valued model (Coquelicot RInt) + CoqInterval integral certificates + relations on the implementation',
    design='6/C15')

GEN = ['GenFailureProbability']
REQ = ['From Coquelicot Require Import Coquelicot.',
       'From PL Require Import Strength.Normal Strength.C15 Strength.C15Cert.',
       'From PLgen Require Import GenFailureProbability.',
       'From Coq Require Import List. Import ListNotations.']
UNFOLD = ['pf_closed_of', 'pf_closed', 'fp_pf_simple_load', 'norm_cdf', 'Phi', 'gauss']
INTEGRAL = 'integral with (i_prec 110, i_fuel 4000, i_degree 18)'
ARB_UNFOLD = 'cbv beta iota zeta delta [pf_arbitrary_model trapz weight_by_cdf norm_cdf Phi gauss];'
ARB_FINAL = 'enclose_integrals; interval with (i_prec 70)'

SIMPLE_CERT_MIN = 1e-12     # pf_simple_load certificates are sampled for P_f >= this (the property's range)
RTOL = 1e-6          # |pf_norm_load - closed form| <= RTOL * closed form   (quad asks for 1.49e-8 relative)
W_CLOSED = 'pf_norm_load differs from the closed form Phi((lm-sm)/sqrt(ls^2+ss^2))'
W_RANGE = 'failure probability outside [0, 1]'
W_MONO_L = 'pf_norm_load does not increase with the load median'
W_MONO_S = 'pf_norm_load does not decrease with the strength median'
W_LIMIT = 'pf_norm_load does not tend to pf_simple_load as the load scatter vanishes'
W_ARB = 'pf_arbitrary_load on a sampled log-normal density differs from the closed form'
W_LIMITS = 'pf_norm_load with the default limits given explicitly differs from the default call'
W_SIMPLE = 'pf_simple_load differs from Phi((log10 load - log10 strength median)/strength std)'
W_ERR = 'failure probability call raised'
W_PURE = "a failure probability call modified its caller's argument"
W_REPEAT = 'repeating a failure probability call with the same arguments gives a different value'
W_ARB_SEQ = 'pf_arbitrary_load on a sampled log-normal density that an earlier call has already been given differs from the closed form'
W_ARB_MONO = 'pf_arbitrary_load on one sampled density does not decrease with the strength median'
W_STATE = 'failure probability depends on the earlier calls made on the same FailureProbability object'
W_ARRAY = 'pf_simple_load with array-valued strength parameters differs from the scalar calls'


# --------------------------------------------------------------------------- oracle (floats)

def ndtr(z):
    from scipy.special import ndtr as f
    return float(f(z))


def closed_form(sm, ss, lm, ls):
    z = (math.log10(lm) - math.log10(sm)) / math.sqrt(ls * ls + ss * ss)
    return ndtr(z), z


# --------------------------------------------------------------------------- known-finding classes

def defective_reference(d):
    """The recorded defective behaviour, reproduced faithfully: QUADPACK with scipy's default tolerances and no break points
    on the property's own integrand over +-16 load scatters (what the unrepaired pf_norm_load computes).  A failing input counts
    as a *known* finding only if the implementation returned this value; any other wrong value is a new violation."""
    import warnings
    from scipy import integrate
    from scipy.stats import norm
    s50, lm, sc, ss = math.log10(d['strength_median']), math.log10(d['load_median']), d['load_std'], d['strength_std']
    with warnings.catch_warnings():
        warnings.simplefilter('ignore')
        q, _ = integrate.quad(lambda x: norm.pdf(x, loc=0.0, scale=sc) * norm.cdf(x, loc=s50 - lm, scale=ss), -16. * sc, 16. * sc)
    return float(q)


def reproduces_defect(d):
    ref = defective_reference(d)
    return abs(d['observed'] - ref) <= 1e-9 * abs(ref) + 1e-300


def k_abs_tolerance(d):
    """quad's default absolute tolerance 1.49e-8 ends the refinement although the relative error is still large:
    small failure probabilities, absolute error within that tolerance, and the value is the one default QUADPACK gives."""
    return d['expected'] < 2e-2 and abs(d['observed'] - d['expected']) <= 2e-8 and reproduces_defect(d)


def k_step_missed(d):
    """strength distribution much narrower than the load distribution: the bisection of +-16 load scatters steps over the
    transition of the strength cdf (absolute error up to about 1e-2), and the value is the one default QUADPACK gives."""
    return d['load_std'] / d['strength_std'] >= 40.0 and 2e-8 < abs(d['observed'] - d['expected']) <= 2e-2 and reproduces_defect(d)


def k_descending_grid(d):
    """pf_arbitrary_load integrates with the orientation of the grid: on a strictly descending grid of load values the
    result is exactly the negative of the value on the same samples in ascending order (which itself is right)."""
    asc = d['observed_on_the_same_samples_ascending']
    return (d.get('function') == 'pf_arbitrary_load' and d.get('grid_order') == 'descending' and d['observed'] < 0.0
            and abs(d['observed'] + asc) <= 1e-9 * abs(asc) and abs(asc - d['expected']) <= d['tolerance'])


# --------------------------------------------------------------------------- generators

def gen_params(rng, zmode=None):
    """strength median over 6 decades, scatter ratio load/strength 1e-3..1e3, target P_f 1e-12 .. 1-1e-12."""
    sm = 10 ** rng.uniform(0, 6)
    ratio = 10 ** rng.uniform(-3, 3)
    g = 10 ** rng.uniform(-2.5, -0.5)
    ls, ss = g * math.sqrt(ratio), g / math.sqrt(ratio)
    m = zmode or rng.choice(['wide', 'wide', 'small', 'mid'])
    if m == 'wide':
        z = rng.uniform(-7.03, 7.03)
    elif m == 'small':      # log-uniform small failure probabilities
        from scipy.special import ndtri
        z = float(ndtri(10 ** rng.uniform(-12, -2)))
    else:
        z = rng.uniform(-1.0, 1.0)
    lm = 10 ** (math.log10(sm) + z * math.sqrt(ls * ls + ss * ss))
    return dict(strength_median=sm, strength_std=ss, load_median=lm, load_std=ls)


def _fp():
    import pylife.strength.failure_probability as FP
    return FP


def eval_norm(p):
    """worker: one call of pf_norm_load (and pf_simple_load at the same load)."""
    import warnings
    warnings.filterwarnings('ignore')
    try:
        fp = _fp().FailureProbability(p['strength_median'], p['strength_std'])
        kw = {}
        if 'lower_limit' in p:
            kw = dict(lower_limit=p['lower_limit'], upper_limit=p['upper_limit'])
        return float(fp.pf_norm_load(p['load_median'], p['load_std'], **kw))
    except Exception as e:     # noqa
        return 'raised %r' % (e,)


def pmap(f, xs):
    if len(xs) < 32:
        return [f(x) for x in xs]
    ctx = multiprocessing.get_context('fork')
    with ctx.Pool(common.NCPU) as pool:
        return pool.map(f, xs, chunksize=max(1, len(xs) // (4 * common.NCPU)))


def arb_case(p, n, k, rng=None):
    """grid (log10 domain, as in the library's own test) + sampled density + the rigorous trapezoid error bound."""
    from scipy.stats import norm
    sm, ss, lm, ls = p['strength_median'], p['strength_std'], p['load_median'], p['load_std']
    c = math.log10(lm)
    a, b = c - k * ls, c + k * ls
    if rng is None:
        x = np.linspace(a, b, n)
    else:
        x = np.sort(np.concatenate([[a, b], a + (b - a) * np.array([rng.random() for _ in range(n - 2)])]))
    pdf = norm.pdf(x, loc=c, scale=ls)
    h = float(np.max(np.diff(x)))
    # |f''| <= |phi_l''| + 2 |phi_l'| phi_s + phi_l |phi_s'|  with  max phi = 0.39895, max |phi'| = 0.24198, max |phi''| = 0.39895
    m2 = 0.39895 / ls ** 3 + 2 * 0.24198 * 0.39895 / (ls * ls * ss) + 0.39895 * 0.24198 / (ls * ss * ss)
    bound = (b - a) * h * h / 12.0 * m2 + 2 * ndtr(-k) + 1e-12
    return x, pdf, bound


def make_grid(p, n, k, grid_seed, order, container):
    """The two objects handed to pf_arbitrary_load, rebuilt deterministically from their description (run and replay):
    uniform (grid_seed None) or random grid over +-k load scatters, ascending or descending, ndarray or pandas Series."""
    import random
    x, pdf, bound = arb_case(p, n, k, None if grid_seed is None else random.Random(grid_seed))
    if order == 'descending':
        x, pdf = x[::-1].copy(), pdf[::-1].copy()
    if container == 'series':
        import pandas as pd
        x, pdf = pd.Series(x), pd.Series(pdf)
    return x, pdf, bound


def arb_sequence(R, FP, p, n, k, grid_seed, order, container, factors):
    """One sampled log-normal load density -- the SAME two array objects throughout -- assessed for the strength medians
    p.strength_median * f, f in `factors` in that order, as a caller does who samples the density once (strength sweep, design
    variants), the last call repeated.  Relations: every value against the closed form for its strength (rigorous trapezoid
    bound) and in range; the caller's arrays are left unmodified; the repeated call returns the same value; along increasing
    strength the value does not increase (theorem pf_arbitrary_model_decreasing_in_strength)."""
    x, pdf, bound = make_grid(p, n, k, grid_seed, order, container)
    x0, pdf0 = np.array(x, dtype=float, copy=True), np.array(pdf, dtype=float, copy=True)
    xa, pa = (x0, pdf0) if order == 'ascending' else (x0[::-1].copy(), pdf0[::-1].copy())
    # theorem pf_arbitrary_model_bounds: between 0 and the trapezoid sum of the sampled density itself (the discrete total
    # probability; it exceeds 1 by the discretisation error on coarse random grids)
    total = float(np.sum(np.diff(xa) * (pa[1:] + pa[:-1]) / 2.0))
    desc = dict(function='pf_arbitrary_load', grid_points=n, half_width_in_load_std=k, grid='uniform' if grid_seed is None else 'random',
                grid_seed=grid_seed, grid_order=order, container=container, strength_factors=list(factors),
                load_median=p['load_median'], load_std=p['load_std'], strength_std=p['strength_std'], base_strength_median=p['strength_median'])
    good, done, modified = [], [], []
    for j, f in enumerate(factors):
        sm = p['strength_median'] * f
        q = dict(p, strength_median=sm)
        exp = closed_form(**_cf(q))[0]
        R.n += 1
        here = dict(desc, strength_median=sm, call_number=j + 1, earlier_strength_medians=list(done))
        try:
            fp = FP.FailureProbability(sm, p['strength_std'])
            v = float(fp.pf_arbitrary_load(x, pdf))
            again = float(fp.pf_arbitrary_load(x, pdf)) if j == len(factors) - 1 else v
        except Exception as e:   # noqa
            R.bad(W_ERR, observed=repr(e), **here)
            done.append(sm)
            continue
        done.append(sm)
        changed = [nm for nm, cur, ref in (('load_values', x, x0), ('load_pdf', pdf, pdf0))
                   if nm not in modified and not np.array_equal(np.asarray(cur, dtype=float), ref)]
        for nm in changed:
            cur = np.asarray(x if nm == 'load_values' else pdf, dtype=float)
            ref = x0 if nm == 'load_values' else pdf0
            delta = float(np.max(np.abs(cur - ref))) if cur.shape == ref.shape else 'shape changed'
            R.bad(W_PURE, modified_argument=nm, max_abs_change=delta, observed=v, **here)
            modified.append(nm)
        in_range = 0.0 <= v <= total * (1 + 1e-12) + 1e-300
        if not abs(v - exp) <= bound or not in_range:
            extra = {}
            if order == 'descending':
                try:
                    extra['observed_on_the_same_samples_ascending'] = float(fp.pf_arbitrary_load(xa.copy(), pa.copy()))
                except Exception as e:   # noqa
                    extra['observed_on_the_same_samples_ascending'] = repr(e)
            R.bad(W_RANGE if not in_range else (W_ARB if j == 0 else W_ARB_SEQ), observed=v, expected=exp, tolerance=bound,
                  density_total=total, arguments_modified_by_earlier_calls=list(modified), **dict(here, **extra))
        else:
            good.append((sm, v))
        if again != v:
            R.bad(W_REPEAT, observed_first=v, observed_second=again, **here)
    good.sort()
    for (s1, v1), (s2, v2) in zip(good, good[1:]):
        R.n += 1
        if s1 < s2 and not v2 <= v1 * (1 + 1e-12) + 1e-300:
            R.bad(W_ARB_MONO, strength_medians=[s1, s2], observed=[v1, v2], **desc)
    return good


def apply_op(FP, fp, op):
    """one call described by a JSON-able dict; returns (value, names of arguments the call modified)"""
    k = op['op']
    if k == 'norm':
        return float(fp.pf_norm_load(op['load_median'], op['load_std'])), []
    if k == 'norm_limits':
        return float(fp.pf_norm_load(op['load_median'], op['load_std'], lower_limit=op['lower_limit'], upper_limit=op['upper_limit'])), []
    if k == 'simple':
        return float(fp.pf_simple_load(op['load'])), []
    if k == 'simple_array':
        a = np.array(op['loads'], dtype=float)
        a0 = a.copy()
        r = np.asarray(fp.pf_simple_load(a), dtype=float).tolist()
        return r, ([] if np.array_equal(a, a0) else ['load'])
    if k == 'arbitrary':
        x, pdf, _ = make_grid(op['density'], op['grid_points'], 9.0, None, 'ascending', 'ndarray')
        x0, pdf0 = x.copy(), pdf.copy()
        v = float(fp.pf_arbitrary_load(x, pdf))
        return v, [nm for nm, a, b in (('load_values', x, x0), ('load_pdf', pdf, pdf0)) if not np.array_equal(a, b)]
    raise ValueError(k)


def eval_state_sequence(spec):
    """worker: a sequence of calls of all three methods on ONE FailureProbability object; every value must be the one a fresh
    object returns for the same call (no hidden state, no dependence on the call history), no argument is modified; the same
    with array-valued strength parameters against the scalar calls.  Returns (number of relation evaluations, findings)."""
    import warnings
    warnings.filterwarnings('ignore')
    FP = _fp()
    sm, ss, ops = spec['strength_median'], spec['strength_std'], spec['ops']
    out, n, history = [], 0, []
    try:
        used = FP.FailureProbability(sm, ss)
    except Exception as e:   # noqa
        return 1, [(W_ERR, dict(function='FailureProbability', observed=repr(e), strength_median=sm, strength_std=ss))]
    for op in ops:
        n += 1
        try:
            got, mod = apply_op(FP, used, op)
            ref, _ = apply_op(FP, FP.FailureProbability(sm, ss), op)
        except Exception as e:   # noqa
            out.append((W_ERR, dict(observed=repr(e), strength_median=sm, strength_std=ss, call=op, earlier_calls_on_the_same_object=list(history))))
            history.append(op)
            continue
        if got != ref:
            out.append((W_STATE, dict(strength_median=sm, strength_std=ss, call=op, earlier_calls_on_the_same_object=list(history),
                                      observed_on_the_used_object=got, observed_on_a_fresh_object=ref)))
        for nm in mod:
            out.append((W_PURE, dict(function=op['op'], modified_argument=nm, strength_median=sm, strength_std=ss, call=op)))
        history.append(op)
    # array-valued strength parameters (docstring: array_like, shape (N,)) with pf_simple_load: elementwise the scalar calls
    n += 1
    fac = spec['array_factors']
    sma, ssa, loads = np.array([sm * f for f in fac]), np.array([ss * f for f in fac[::-1]]), np.array(spec['array_loads'], dtype=float)
    keep = sma.copy(), ssa.copy(), loads.copy()
    try:
        fa = FP.FailureProbability(sma, ssa)
        first = np.asarray(fa.pf_simple_load(loads), dtype=float).tolist()
        second = np.asarray(fa.pf_simple_load(loads), dtype=float).tolist()
        scal = [float(FP.FailureProbability(float(a), float(b)).pf_simple_load(float(c))) for a, b, c in zip(*keep)]
        d = dict(strength_median=keep[0].tolist(), strength_std=keep[1].tolist(), load=keep[2].tolist())
        if first != scal or second != scal:
            out.append((W_ARRAY, dict(d, observed_first_call=first, observed_second_call=second, scalar_calls=scal)))
        for nm, a, b in (('strength_median', sma, keep[0]), ('strength_std', ssa, keep[1]), ('load', loads, keep[2])):
            if not np.array_equal(a, b):
                out.append((W_PURE, dict(d, function='FailureProbability(arrays).pf_simple_load', modified_argument=nm)))
    except Exception as e:   # noqa
        out.append((W_ERR, dict(function='FailureProbability(arrays).pf_simple_load', observed=repr(e), strength_median=keep[0].tolist(),
                                strength_std=keep[1].tolist(), load=keep[2].tolist())))
    return n, out


def gen_state_sequence(rng):
    p = gen_params(rng, rng.choice(['wide', 'mid', 'small']))
    sm, ss = p['strength_median'], p['strength_std']
    s = math.sqrt(p['load_std'] ** 2 + ss ** 2)
    ops = []
    for _ in range(2):
        lm = p['load_median'] * 10 ** (rng.uniform(-1.5, 1.5) * s)
        ls = p['load_std'] * 10 ** rng.uniform(-0.5, 0.5)
        ops.append(dict(op='norm', load_median=lm, load_std=ls))
    ops.append(dict(ops[0], load_std=ops[0]['load_std'] * 10 ** rng.uniform(0.1, 0.5)))     # same load median, other scatter
    c = math.log10(p['load_median'])
    ops.append(dict(op='norm_limits', load_median=p['load_median'], load_std=p['load_std'],
                    lower_limit=c - rng.uniform(4, 16) * p['load_std'], upper_limit=c + rng.uniform(4, 16) * p['load_std']))
    ops.append(dict(op='simple', load=sm * 10 ** (rng.uniform(-5, 5) * ss)))
    ops.append(dict(op='simple_array', loads=[sm * 10 ** (rng.uniform(-5, 5) * ss) for _ in range(3)]))
    q = gen_params(rng, 'mid')
    while q['load_std'] / q['strength_std'] > 30:
        q = gen_params(rng, 'mid')
    ops.append(dict(op='arbitrary', grid_points=2001, density=dict(q, strength_median=sm, strength_std=ss)))
    rng.shuffle(ops)
    ops = ops + [dict(o) for o in ops[:3]]        # the first calls once more, after all the others
    return dict(strength_median=sm, strength_std=ss, ops=ops, array_factors=[1.0, 10 ** rng.uniform(0.1, 1), 10 ** rng.uniform(-1, -0.1)],
                array_loads=[sm * 10 ** (rng.uniform(-4, 4) * ss) for _ in range(3)])


# --------------------------------------------------------------------------- relations on the implementation

class Relations:
    def __init__(self, res):
        self.res = res
        self.n = 0
        self.nontrivial = set()
        self.flagged = 0
        self.skipped_pairs = 0
        self.raised = 0

    def bad(self, what, **kw):
        return self.res.violation(what, **kw)

    # -- one point against the closed form; returns True iff it agrees (a disagreement is reported here, once)
    def point(self, p, got):
        self.n += 1
        exp, z = closed_form(p['strength_median'], p['strength_std'], p['load_median'], p['load_std'])
        if isinstance(got, str):
            self.raised += 1
            self.bad(W_ERR, observed=got, **p)
            return False
        ok = True
        if not (0.0 <= got <= 1.0 + 1e-12) or got != got:
            self.bad(W_RANGE, function='pf_norm_load', observed=got, **p)
            ok = False
        if not abs(got - exp) <= RTOL * exp:
            self.bad(W_CLOSED, observed=got, expected=exp, z=z, **p)
            self.flagged += 1
            ok = False
        if 1e-12 <= exp <= 1 - 1e-12:
            self.nontrivial.add((p['strength_median'], p['strength_std'], p['load_median'], p['load_std']))
        return ok

    def monotone(self, what, ps, gots, oks, increasing):
        """ps ordered such that the closed form increases (increasing=True) / decreases along the chain."""
        for i in range(len(ps) - 1):
            if not (oks[i] and oks[i + 1]):
                self.skipped_pairs += 1      # an endpoint is already reported as a failing input of the closed-form relation
                continue
            self.n += 1
            a, b = (gots[i], gots[i + 1]) if increasing else (gots[i + 1], gots[i])
            ea = closed_form(**_cf(ps[i] if increasing else ps[i + 1]))[0]
            eb = closed_form(**_cf(ps[i + 1] if increasing else ps[i]))[0]
            strict = eb - ea > 1e-5 * eb
            if b < a * (1 - 1e-7) or (strict and not b > a):
                self.bad(what, first=ps[i], second=ps[i + 1], observed_first=gots[i], observed_second=gots[i + 1])


def _cf(p):
    return dict(sm=p['strength_median'], ss=p['strength_std'], lm=p['load_median'], ls=p['load_std'])


def corpus_points():
    path = os.path.join(common.CORPUS, 'C15', 'points.json')
    keys = ('strength_median', 'strength_std', 'load_median', 'load_std')
    try:
        return [{k: float(e[k]) for k in keys} for e in json.load(open(path))]
    except OSError:
        return []


def impl_relations(res, rng, n_pts, n_chain, n_lim, n_arb, n_simple, n_state):
    FP = _fp()
    R = Relations(res)
    # ---- corpus (hand-picked edge cases, run first) + sampled points + chains, evaluated in parallel
    pts = corpus_points() + [gen_params(rng) for _ in range(n_pts)]
    chains = []
    for _ in range(n_chain):
        p = gen_params(rng)
        s = math.sqrt(p['load_std'] ** 2 + p['strength_std'] ** 2)
        steps = [0.0] + sorted(rng.uniform(0.05, 3.0) for _ in range(3))
        kind = rng.choice(['load', 'strength'])
        key = 'load_median' if kind == 'load' else 'strength_median'
        ch = [dict(p, **{key: p[key] * 10 ** (d * s)}) for d in steps]
        chains.append((kind, ch))
    lims = []
    for _ in range(n_lim):
        p = gen_params(rng, rng.choice(['wide', 'mid', 'small']))
        # z0 of the deterministic load: keep it inside +-7
        z0 = rng.uniform(-7.0, 7.0) if rng.random() < 0.5 else rng.uniform(-2, 2)
        p['load_median'] = 10 ** (math.log10(p['strength_median']) + z0 * p['strength_std'])
        rs = [1e-1, 1e-2, 1e-3, 1e-5, 1e-8, 1e-12, 1e-32 / p['strength_std']]
        lims.append([dict(p, load_std=r * p['strength_std']) for r in rs])
    explicit = []
    for _ in range(max(4, n_pts // 10)):
        p = gen_params(rng)
        c = math.log10(p['load_median'])
        explicit.append((p, dict(p, lower_limit=c - 16. * p['load_std'], upper_limit=c + 16. * p['load_std'])))
    flat = pts + [q for _, ch in chains for q in ch] + [q for l in lims for q in l] + [q for pr in explicit for q in pr]
    got = pmap(eval_norm, flat)
    it = iter(got)
    for p in pts:
        R.point(p, next(it))
    for kind, ch in chains:
        g = [next(it) for _ in ch]
        oks = [R.point(p, x) for p, x in zip(ch, g)]
        if kind == 'load':
            R.monotone(W_MONO_L, ch, g, oks, True)
        else:
            R.monotone(W_MONO_S, ch, g, oks, False)
    for l in lims:
        g = [next(it) for _ in l]
        oks = [R.point(p, x) for p, x in zip(l, g)]
        fp = FP.FailureProbability(l[0]['strength_median'], l[0]['strength_std'])
        simple = float(fp.pf_simple_load(l[0]['load_median']))
        z0 = (math.log10(l[0]['load_median']) - math.log10(l[0]['strength_median'])) / l[0]['strength_std']
        for p, x, ok in zip(l, g, oks):
            if not ok:
                R.skipped_pairs += 1
                continue
            R.n += 1
            r = p['load_std'] / p['strength_std']
            # |Phi(z0/sqrt(1+r^2)) - Phi(z0)| <= max(phi) |z0| r^2 / 2
            tol = 0.2 * abs(z0) * r * r + 2 * RTOL * simple + 1e-300
            if not abs(x - simple) <= tol:
                R.bad(W_LIMIT, observed=x, pf_simple_load=simple, tolerance=tol, **p)
    for p, q in explicit:
        a, b = next(it), next(it)
        oka = R.point(p, a)
        R.n += 1
        if isinstance(b, str):
            R.bad(W_ERR, observed=b, **q)
        elif oka and not abs(a - b) <= 2 * RTOL * abs(a):
            R.bad(W_LIMITS, observed_default=a, observed_explicit=b, **q)
    # ---- pf_simple_load
    for _ in range(n_simple):
        p = gen_params(rng)
        sm, ss, L = p['strength_median'], p['strength_std'], p['load_median'] ** rng.choice([1.0, 1.0, 0.5])
        fp = FP.FailureProbability(sm, ss)
        R.n += 1
        try:
            given = np.array([L, L * 10 ** (0.3 * ss), L * 10 ** (1.1 * ss)])
            loads = given.copy()
            arr = np.asarray(fp.pf_simple_load(given), float)
            if not np.array_equal(given, loads):
                R.bad(W_PURE, function='pf_simple_load', modified_argument='load', strength_median=sm, strength_std=ss, load=loads.tolist(),
                      load_array_after_the_call=given.tolist())
            sc = [float(fp.pf_simple_load(float(x))) for x in loads]
            dec = float(FP.FailureProbability(sm * 10 ** (0.4 * ss), ss).pf_simple_load(L))
        except Exception as e:   # noqa
            R.bad(W_ERR, function='pf_simple_load', observed=repr(e), strength_median=sm, strength_std=ss, load=L)
            continue
        for x, v, a in zip(loads, sc, arr):
            z = (math.log10(x) - math.log10(sm)) / ss
            e = ndtr(z)
            # rounding of the two log10 and of the quotient moves z by dz; Phi'(z)/Phi(z) <= |z| + 1 for z < 0
            dz = 4e-16 * (abs(math.log10(x)) + abs(math.log10(sm)) + abs(z) * ss) / ss
            if not abs(v - e) <= (1e-13 + (abs(z) + 1.0) * dz) * e + 1e-300 or a != v:
                R.bad(W_SIMPLE, strength_median=sm, strength_std=ss, load=float(x), observed=v, observed_in_array=float(a), expected=e)
            if not 0.0 <= v <= 1.0:
                R.bad(W_RANGE, function='pf_simple_load', strength_median=sm, strength_std=ss, load=float(x), observed=v)
        if not (sc[0] <= sc[1] <= sc[2]) or (1e-300 < sc[0] < 0.999 and not sc[0] < sc[2]):
            R.bad('pf_simple_load does not increase with the load', strength_median=sm, strength_std=ss, loads=loads.tolist(), observed=sc)
        if not dec <= sc[0] or (1e-300 < sc[0] < 0.999 and not dec < sc[0]):
            R.bad('pf_simple_load does not decrease with the strength median', strength_median=[sm, sm * 10 ** (0.4 * ss)],
                  strength_std=ss, load=L, observed=[sc[0], dec])
    # ---- pf_arbitrary_load on a sampled log-normal density: one density (the same array objects) for several strengths
    for j in range(n_arb):
        p = gen_params(rng, rng.choice(['wide', 'mid']))
        # the trapezoid rule needs grid spacing << both scatters: scatter ratio restricted to 1e-3 .. 30 here
        while p['load_std'] / p['strength_std'] > 30:
            p = gen_params(rng, 'mid')
        s = math.sqrt(p['load_std'] ** 2 + p['strength_std'] ** 2)
        for n, randomgrid, order, container in ((6001, False, 'ascending', 'ndarray'), (24001, False, 'ascending', 'series'),
                                                (12000, True, 'ascending', 'ndarray'), (6001, False, 'descending', 'ndarray'),
                                                (12000, True, 'descending', 'series')):
            others = [10 ** (rng.choice([-1, 1]) * rng.uniform(0.2, 2.0) * s) for _ in range(2)]
            factors = [1.0] + others if rng.random() < 0.5 else [others[0], 1.0, others[1]]
            good = arb_sequence(R, FP, p, n, 9.0, rng.randrange(2 ** 31) if randomgrid else None, order, container, factors)
            if j == 0 and order == 'ascending' and not randomgrid:
                res.sample({'pf_arbitrary_load, one sampled density for several strengths': dict(p, grid_points=n, container=container,
                                                                                              strength_median_and_value=good)})
    # ---- sequences of calls on one FailureProbability object against fresh objects; array-valued strength parameters
    for k, found in pmap(eval_state_sequence, [gen_state_sequence(rng) for _ in range(n_state)]):
        R.n += k
        for what, kw in found:
            R.bad(what, **kw)
    return R


def extended_search(res, rng, n):
    """Only used when a proof obligation is broken: the closed-form relation far in both tails."""
    ps = []
    for _ in range(n):
        p = gen_params(rng)
        s = math.sqrt(p['load_std'] ** 2 + p['strength_std'] ** 2)
        z = rng.choice([-1, 1]) * rng.uniform(7.0, 12.0)
        p['load_median'] = 10 ** (math.log10(p['strength_median']) + z * s)
        ps.append(p)
    R = Relations(res)
    for p, g in zip(ps, pmap(eval_norm, ps)):
        R.point(p, g)
    return R.n


# --------------------------------------------------------------------------- certificates

def certificates(res, rng, n_norm, n_simple, n_arb):
    """Goals closed by CoqInterval under Qed: the implementation's float result against the closed form / the models."""
    FP = _fp()
    goals, descr, arb_goals, arb_descr = [], [], [], []
    A = cert.app
    tries = 0
    cands = []
    while len(cands) < n_norm and tries < 20 * n_norm:
        tries += 1
        cands.append(gen_params(rng, ['wide', 'small', 'mid', 'wide'][tries % 4]))
    gots = pmap(eval_norm, cands)
    skipped = 0
    for p, got in zip(cands, gots):
        exp, z = closed_form(**_cf(p))
        if isinstance(got, str) or not abs(got - exp) <= RTOL * exp:
            skipped += 1        # reported by the relations (same generator family) as a failing input; nothing to certify
            continue
        tol = RTOL * exp * 1.0000001 + 1e-300
        goals.append('Rabs (%s - %s) <= %s' % (A('pf_closed_of', p['strength_median'], p['strength_std'], p['load_median'], p['load_std']),
                                               common.rlit(got), cert.tol_lit(tol)))
        descr.append(('pf_norm_load vs closed form', p['strength_median'], p['strength_std'], p['load_median'], p['load_std'], got))
    out_of_range = 0
    n_s = 0
    while n_s < n_simple and out_of_range < 50 * n_simple + 50:
        p = gen_params(rng)
        sm, ss, L = p['strength_median'], p['strength_std'], p['load_median'] ** rng.choice([1.0, 0.5])
        v = float(FP.FailureProbability(sm, ss).pf_simple_load(L))
        # the property's range P_f >= 1e-12 (relative 1e-9 there is absolute 1e-21).  Below it Phi = 1/2 + integral cancels to more
        # digits than the certificate precision (i_prec 110 = 33 digits) holds and `integral` bisects until its fuel is used up
        # (minutes, never closes): those candidates are not sampled; the float relation above covers them against ndtr
        if not v >= SIMPLE_CERT_MIN:
            out_of_range += 1
            continue
        n_s += 1
        goals.append('Rabs (%s - %s) <= %s' % (A('fp_pf_simple_load', sm, ss, L), common.rlit(v), cert.tol_lit(1e-9 * v)))
        descr.append(('pf_simple_load vs generated model', sm, ss, L, v))
    for _ in range(n_arb):
        p = gen_params(rng, 'mid')
        sm, ss = p['strength_median'], p['strength_std']
        k = rng.choice([2, 3, 4])
        c = math.log10(sm)
        xs = sorted(c + ss * rng.uniform(-3, 3) for _ in range(k))
        pdf = [rng.uniform(0.0, 2.0) for _ in range(k)]
        # ONE pair of arrays for two calls (two strength medians), as a caller does who sampled the density once; both values
        # are certified against the model applied to the ORIGINAL samples
        ax, ap = np.array(xs), np.array(pdf)
        for sm_i in (sm, sm * 10 ** (rng.uniform(-1.5, 1.5) * ss)):
            v = float(FP.FailureProbability(sm_i, ss).pf_arbitrary_load(ax, ap))
            arb_goals.append('Rabs (pf_arbitrary_model %s %s %s %s - %s) <= %s' % (
                common.rlit(sm_i), common.rlit(ss), common.coq_list(xs, common.rlit), common.coq_list(pdf, common.rlit),
                common.rlit(v), cert.tol_lit(1e-9 * abs(v) + 1e-12)))
            arb_descr.append(('pf_arbitrary_load vs trapezoid model (call %d on the same arrays)' % (1 if sm_i == sm else 2), sm_i, ss, xs, pdf, v))
    return goals, descr, arb_goals, arb_descr, skipped


# --------------------------------------------------------------------------- run / replay

def run_certs_bounded(name, req, unfolds, goals, goal_timeout, shard_budget, extra_tac='', final_tac=None):
    """Per-run certificates with a bound on the time of every goal and of every shard.

    Every goal is `Goal G. Proof. timeout <goal_timeout> (tac). Qed.` followed by a marker that coqc prints only after the Qed
    was accepted.  A shard is compiled by one coqc under a shell timeout and never retried blindly: when coqc stops at a goal,
    that goal is classified from the error (Coq `Timeout!` / shell timeout / killed => NOT EVALUATED; any other error => BAD)
    and the rest of the shard is compiled by a new coqc, as long as the shard's time budget lasts; goals not reached within the
    budget are NOT EVALUATED.  Returns (ok, bad, unevaluated, log): ok = goals closed under Qed (kernel-checked).  A goal that
    was not evaluated is never a pass and never a failure: the caller counts it and requires enough evaluated goals."""
    import re
    import time
    from concurrent.futures import ThreadPoolExecutor
    reqs = '\n'.join(req)
    unf = ('unfold %s;' % ', '.join(unfolds)) if unfolds else ''
    tac = '%s cbv beta iota zeta; repeat match goal with |- _ /\\ _ => split end; %s cert_prep; %s' % (unf, extra_tac, final_tac)
    nshard = max(1, min(common.NCPU, len(goals)))
    shards = [list(range(k, len(goals), nshard)) for k in range(nshard)]      # interleaved: expensive kinds are spread

    def text(idx):
        out = cert.HEADER % reqs
        for i in idx:
            out += 'Goal %s.\nProof. timeout %d (%s). Qed.\nGoal True. idtac "CERT-QED %d". exact I. Qed.\n' % (goals[i], goal_timeout, tac, i)
        return out

    def one(job):
        k, idx = job
        ok, bad, uneval, logs = [], [], [], []
        rest, used, rnd = list(idx), 0.0, 0
        d = os.path.join(common.BUILD, 'scratch')
        common.mkdirs(d)
        while rest:
            left = shard_budget - used          # coqc running time only: waiting for a machine-wide coqc slot does not count
            if left < 5:
                uneval += rest
                logs.append('[shard %d: time budget of %ds used up, %d goals not evaluated]' % (k, shard_budget, len(rest)))
                break
            path = os.path.join(d, '%s_bcert_%d_%d.v' % (name, k, rnd))
            with open(path, 'w') as f:
                f.write(text(rest))
            with common.Slot():
                t1 = time.time()
                rc, out = common.sh(['coqc', '-w', '-all'] + common.COQ_FLAGS + ['-Q', d, 'Scratch', path], cwd=d,
                                    timeout=min(left, len(rest) * (goal_timeout + 5) + 120))
                used += time.time() - t1
            good = rc == 0
            rnd += 1
            qed = {int(x) for x in re.findall(r'CERT-QED (\d+)', out)}
            ok += [i for i in rest if i in qed]
            rest = [i for i in rest if i not in qed]
            if good or not rest:
                uneval += rest          # exit 0 without the marker cannot happen; be safe
                break
            first = rest.pop(0)         # coqc stopped at this goal
            if 'Timeout' in out or common.infra_failure(1, out) or '[timeout after' in out:
                uneval.append(first)
                logs.append('[goal %d not evaluated within %ds] %s' % (first, goal_timeout, out[-300:]))
            else:
                bad.append(first)
                logs.append('[goal %d] %s' % (first, out[-1500:]))
        return ok, bad, uneval, '\n'.join(logs)

    ok, bad, uneval, logs = [], [], [], []
    with ThreadPoolExecutor(max_workers=nshard) as ex:
        for a, b, c, l in ex.map(one, list(enumerate(shards))):
            ok += a
            bad += b
            uneval += c
            logs.append(l)
    return sorted(ok), sorted(bad), sorted(uneval), '\n'.join(x for x in logs if x)


def register(res):
    res.classes['quad-absolute-tolerance'] = k_abs_tolerance
    res.classes['strength-step-missed'] = k_step_missed
    res.classes['arbitrary-load-descending-grid'] = k_descending_grid


def still_fails(entry):
    w = entry['witness']
    if entry.get('class') == 'arbitrary-load-descending-grid':
        x, pdf, _ = make_grid(w, w['grid_points'], w['half_width_in_load_std'], None, 'descending', 'ndarray')
        try:
            return not float(_fp().FailureProbability(w['strength_median'], w['strength_std']).pf_arbitrary_load(x, pdf)) >= 0.0
        except Exception:   # noqa
            return True
    got = eval_norm(w)
    exp = closed_form(**_cf(w))[0]
    return isinstance(got, str) or not abs(got - exp) <= RTOL * exp


def run(res):
    quick = res.tier == 'quick'
    register(res)
    res.trusted += ['py2coq translator + whitelist specs/c15.py (GenFailureProbability: pf_simple_load, pf_norm_load with default and with explicit limits)',
                    'CoqInterval (integral / interval tactics) for the per-run certificates; float->exact rational conversion',
                    'scipy.special.ndtr as float oracle of Phi in the relations (cross-checked against the Coq definition of Phi by the certificates)',
                    'axioms: ClassicalDedekindReals.sig_forall_dec, sig_not_dec, functional_extensionality_dep (Coq Reals), Classical_Prop.classic (Coquelicot)']
    res.assumptions += ['borrowed, not formalised: the Gaussian convolution identity int phi_ls(x) Phi((x-d)/ss) dx = Phi(-d/sqrt(ls^2+ss^2))',
                        'scipy.integrate.quad is idealised in the model as the Riemann integral over the same limits; what QUADPACK returns is checked per sample (relative 1e-6), not between samples',
                        'floating-point rounding is outside the theorems (a result may exceed 1 by rounding: 1 + 1e-12 is accepted)',
                        'pf_arbitrary_load takes load values in log10 units (as the library\'s own test does); hand-written trapezoid model tied by certificates on 2-4 point grids']
    res.cov['rule'] = ('strength median 1..1e6, geometric mean of the two scatters 0.003..0.3 (log10 units), load/strength scatter ratio 1e-3..1e3, load median chosen for a target '
                       'z = (lm-sm)/sqrt(ls^2+ss^2): uniform in +-7.03, or P_f log-uniform in 1e-12..1e-2, or |z|<1; non-trivial = distinct parameter tuple whose closed-form '
                       'P_f lies in [1e-12, 1-1e-12]')
    import time
    t0 = time.time()
    stage = res.cov.setdefault('wall_s_by_stage', {})
    proofs_ok = common.standard_proof_stage(res, 'C15', extra_targets=['theories/Common/Cert.vo', 'theories/Strength/C15Cert.vo'], gen_fn=lambda: gen_specs.generate(GEN))
    stage['proofs_and_audit'] = round(time.time() - t0, 1)
    t0 = time.time()
    # D2 first (cheap, and it is the failing-input search): the relations on the implementation
    n_pts, n_chain, n_lim, n_arb, n_simple, n_state = (400, 60, 25, 12, 60, 48) if quick else (3000, 400, 150, 60, 400, 400)
    R = impl_relations(res, res.rng, n_pts, n_chain, n_lim, n_arb, n_simple, n_state)
    res.add_cases(R.n, nontrivial=len(R.nontrivial))
    res.cov['impl_relation_evaluations'] = R.n
    res.cov['closed_form_disagreements'] = R.flagged
    res.cov['relation_pairs_skipped_because_endpoint_already_reported'] = R.skipped_pairs
    res.cov['calls_that_raised'] = R.raised
    stage['relations_on_the_implementation'] = round(time.time() - t0, 1)
    t0 = time.time()
    if not proofs_ok:
        # a proof obligation broke: widen the failing-input search beyond the property's stated range (|z| up to 12,
        # i.e. failure probabilities down to 1.8e-33; further out the +-16 scatter truncation of the integral itself
        # limits the relative accuracy), where a changed limit / constant shows
        k = extended_search(res, res.rng, 300 if quick else 3000)
        res.add_cases(k)
        res.cov['extended_search_evaluations'] = k
    # D1: certificates (need the compiled theories)
    if proofs_ok:
        try:
            n_norm, n_s, n_a = (28, 8, 4) if quick else (300, 40, 12)
            goals, descr, ag, ad, skipped = certificates(res, res.rng, n_norm, n_s, n_a)
            # bounded: every goal under a Coq `timeout`, every shard under a shell timeout and a time budget, nothing retried blindly.
            # Typical goal: 0.2-5 s CPU.  A goal that is not evaluated in time is neither a pass nor a failure (counted below).
            gto, budget = (60, 300) if quick else (120, 1200)
            ok, bad, un, log = run_certs_bounded('C15', REQ, UNFOLD, goals, gto, budget, final_tac=INTEGRAL)
            ok2, bad2, un2, log2 = run_certs_bounded('C15arb', REQ, [], ag, gto, budget, extra_tac=ARB_UNFOLD, final_tac=ARB_FINAL)
            oks = set(ok) | {len(goals) + i for i in ok2}
            bad = list(bad) + [len(goals) + i for i in bad2]
            uneval = set(un) | {len(goals) + i for i in un2}
            goals, descr, log = goals + ag, descr + ad, log + log2
            for i in range(len(goals)):
                if i not in uneval:
                    res.oblige('certificate %s' % (descr[i],), i in oks, log if i not in oks else '')
            # enough of every kind must have been evaluated, else the run is not evidence
            for kind in ('pf_norm_load', 'pf_simple_load', 'pf_arbitrary_load'):
                idx = [i for i, d in enumerate(descr) if d[0].startswith(kind)]
                ev = [i for i in idx if i not in uneval]
                res.oblige('at least 2/3 of the %s certificates were evaluated within the time limits (%d of %d)' % (kind, len(ev), len(idx)),
                           3 * len(ev) >= 2 * len(idx), log)
            res.add_cases(len(goals) - len(uneval), nontrivial=len({repr(descr[i]) for i in range(len(goals)) if i not in uneval}))
            for d in descr[:3] + descr[-2:]:
                res.sample({'certificate': d})
            res.cov['certificate_goals'] = len(goals)
            res.cov['certificate_goals_not_evaluated_within_time_limit'] = [descr[i] for i in sorted(uneval)][:20]
            res.cov['certificate_goal_timeout_s_and_shard_budget_s'] = [gto, budget]
            res.cov['certificate_candidates_skipped_as_reported_failures'] = skipped
            res.cov['certificate_failed_inputs'] = [descr[i] for i in bad][:20]
        except Exception as e:   # noqa
            res.oblige('certificates could be generated and run', False, repr(e))
    stage['certificates'] = round(time.time() - t0, 1)
    res.replay_known(still_fails)


def replay(res, rp):
    """Re-evaluate the stored failing input on the current implementation."""
    register(res)
    v = rp.get('violation') or {}
    what = v.get('what')
    print('replaying: %s' % what)
    keys = ('strength_median', 'strength_std', 'load_median', 'load_std')
    if what in (W_CLOSED, W_RANGE, W_LIMIT, W_ERR) and all(k in v for k in keys) and v.get('function', 'pf_norm_load') == 'pf_norm_load':
        p = {k: v[k] for k in keys}
        got = eval_norm(p)
        exp, z = closed_form(**_cf(p))
        print(json.dumps({'input': p, 'observed_now': got, 'closed_form': exp, 'observed_then': v.get('observed')}))
        R = Relations(res)
        ok = R.point(p, got)
        if what == W_LIMIT and ok:
            simple = float(_fp().FailureProbability(p['strength_median'], p['strength_std']).pf_simple_load(p['load_median']))
            if not abs(got - simple) <= v['tolerance']:
                res.violation(W_LIMIT, observed=got, pf_simple_load=simple, tolerance=v['tolerance'], **p)
        res.add_cases(1)
        return res.finish()
    if what in (W_MONO_L, W_MONO_S) and 'first' in v:
        ps = [v['first'], v['second']]
        g = [eval_norm(p) for p in ps]
        print(json.dumps({'inputs': ps, 'observed_now': g}))
        R = Relations(res)
        oks = [R.point(p, x) for p, x in zip(ps, g)]
        R.monotone(what, ps, g, oks, what == W_MONO_L)
        res.add_cases(2)
        return res.finish()
    if v.get('function') == 'pf_arbitrary_load' and 'strength_factors' in v and 'grid_order' in v:
        # a sequence of pf_arbitrary_load calls on one sampled density: rebuilt from its description and evaluated again
        p = dict(strength_median=v['base_strength_median'], strength_std=v['strength_std'], load_median=v['load_median'], load_std=v['load_std'])
        R = Relations(res)
        good = arb_sequence(R, _fp(), p, v['grid_points'], v['half_width_in_load_std'], v.get('grid_seed'), v['grid_order'], v['container'],
                            v['strength_factors'])
        print(json.dumps({'input': p, 'grid': {k: v[k] for k in ('grid_points', 'grid', 'grid_seed', 'grid_order', 'container', 'strength_factors')},
                          'values_that_agree_now': good, 'observed_then': v.get('observed')}))
        res.add_cases(R.n)
        return res.finish()
    if 'call' in v and 'strength_median' in v and what in (W_STATE, W_PURE, W_ERR):
        spec = dict(strength_median=v['strength_median'], strength_std=v['strength_std'],
                    ops=list(v.get('earlier_calls_on_the_same_object', [])) + [v['call']], array_factors=[1.0, 2.0, 0.5],
                    array_loads=[v['strength_median']] * 3)
        n, found = eval_state_sequence(spec)
        print(json.dumps({'sequence': spec['ops'], 'findings_now': [f[0] for f in found]}))
        for w2, kw in found:
            res.violation(w2, **kw)
        res.add_cases(n)
        return res.finish()
    # anything else (pf_simple_load, array-valued parameters, broken obligation): the run is deterministic in the seed
    os.environ['VERIF_SEED'] = str(rp.get('seed', 0))
    res.tier = rp.get('tier', res.tier)
    res.seed = rp.get('seed', res.seed)
    import random
    res.rng = random.Random(res.seed)
    run(res)
    return res.finish()
