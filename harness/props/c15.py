"""C15 -- failure probability = analytic overlap of the load and strength distributions.

Proof part: props/C15.v (theories/Strength/{Normal,GaussIntegral,C15}.v) about the py2coq-generated model of
`FailureProbability.pf_simple_load / pf_norm_load` (GenFailureProbability, regenerated on every run) and about the closed
form Phi((lm - sm)/sqrt(ls^2 + ss^2)), with Phi *defined* as 1/2 + RInt gauss 0 z / sqrt(2 pi).

Tie: (1) translator (a changed formula / limit / argument breaks the proofs that the generated model is the truncated overlap
integral), (2) per-run CoqInterval `integral` certificates: the kernel checks that what the implementation returned lies
within the stated tolerance of the closed form (pf_norm_load, quadrature) resp. of the generated / hand-written model
(pf_simple_load, pf_arbitrary_load), (3) the property's own relations on the implementation in floats on every run; these
double as the failing-input search.

The one borrowed mathematical fact (not formalised): int phi_ls(x) Phi((x - d)/ss) dx = Phi(-d / sqrt(ls^2 + ss^2))."""
import json
import math
import multiprocessing
import os

import numpy as np

import cert
import common
import gen_specs

MANIFEST = dict(
    text='Theorems (props/C15.v) over R with Phi defined as 1/2 + RInt(exp(-t^2/2), 0, z)/sqrt(2 pi) (Coquelicot), none axiomatised: '
         'Phi strictly increasing, symmetric, continuous, derivative phi, strictly between 0 and 1 (the Gaussian integral bound is proved, '
         'by differentiation under the integral sign); the model that py2coq regenerates from failure_probability.py on every run satisfies: '
         'pf_simple_load = Phi((log10 L - log10 S)/ss) = closed form at zero load scatter; pf_norm_load (quad idealised as the Riemann integral) '
         '= integral over +-16 load scatters of load density times strength distribution function, explicit limits are shifted by log10 of the '
         'load median; that model value increases strictly with the load median, decreases strictly with the strength median and lies in (0,1); '
         'the closed form Phi((lm-sm)/sqrt(ls^2+ss^2)) is in (0,1), increasing in load, decreasing in strength, complementary under exchange '
         'of load and strength, and tends to pf_simple_load as the load scatter vanishes; the hand-written trapezoid model of '
         'pf_arbitrary_load lies between 0 and the trapezoid sum of the density. Per run the kernel checks by CoqInterval `integral` '
         'certificates that the implementation\'s float results agree with the closed form / models on sampled inputs (relative 1e-6 down to '
         'P_f = 1e-12), and the relations of the property are evaluated on the implementation.',
    note=common.TB_NOTE + 'py2coq translator and its whitelist; CoqInterval (integral, interval); borrowed and NOT formalised: the Gaussian '
         'convolution identity int phi_ls(x) Phi((x-d)/ss) dx = Phi(-d/sqrt(ls^2+ss^2)) (stated as a Prop, used only as hypothesis of '
         'pf_norm_load_closed_form_partial); scipy.integrate.quad (QUADPACK) is idealised as the Riemann integral: what it really returns '
         'is certified per sample only, its behaviour between samples cannot be exhibited; float rounding, scipy.stats.norm, numpy trapezoid '
         'are outside the theorems (tied per sample).',
    technique='Coq proof over py2coq-generated real-valued model (Coquelicot RInt) + CoqInterval integral certificates + relations on the implementation',
    design='6/C15')

GEN = ['GenFailureProbability']
REQ = ['From Coquelicot Require Import Coquelicot.',
       'From PL Require Import Strength.Normal Strength.C15 Strength.C15Cert.',
       'From PLgen Require Import GenFailureProbability.',
       'From Coq Require Import List. Import ListNotations.']
UNFOLD = ['pf_closed_of', 'pf_closed', 'fp_pf_simple_load', 'norm_cdf', 'Phi', 'gauss']
INTEGRAL = 'integral with (i_prec 110, i_fuel 4000, i_degree 18)'
ARB_UNFOLD = 'cbv beta iota zeta delta [pf_arbitrary_model trapz weight_by_cdf norm_cdf Phi gauss];'
ARB_FINAL = 'enclose_integrals; interval with (i_prec 70)'

RTOL = 1e-6          # |pf_norm_load - closed form| <= RTOL * closed form   (quad asks for 1.49e-8 relative)
W_CLOSED = 'pf_norm_load differs from the closed form Phi((lm-sm)/sqrt(ls^2+ss^2))'
W_RANGE = 'failure probability outside [0, 1]'
W_MONO_L = 'pf_norm_load does not increase with the load median'
W_MONO_S = 'pf_norm_load does not decrease with the strength median'
W_LIMIT = 'pf_norm_load does not tend to pf_simple_load as the load scatter vanishes'
W_ARB = 'pf_arbitrary_load on a sampled log-normal density differs from the closed form'
W_LIMITS = 'pf_norm_load with the default limits given explicitly differs from the default call'
W_SIMPLE = 'pf_simple_load differs from Phi((log10 load - log10 strength median)/strength std)'
W_ERR = 'failure probability call raised'


# --------------------------------------------------------------------------- oracle (floats)

def ndtr(z):
    from scipy.special import ndtr as f
    return float(f(z))


def closed_form(sm, ss, lm, ls):
    z = (math.log10(lm) - math.log10(sm)) / math.sqrt(ls * ls + ss * ss)
    return ndtr(z), z


# --------------------------------------------------------------------------- known-finding classes

def defective_reference(d):
    """The recorded defective behaviour, reproduced faithfully: QUADPACK with scipy's default tolerances and no break points
    on the property's own integrand over +-16 load scatters (what the unrepaired pf_norm_load computes).  A failing input counts
    as a *known* finding only if the implementation returned this value; any other wrong value is a new violation."""
    import warnings
    from scipy import integrate
    from scipy.stats import norm
    s50, lm, sc, ss = math.log10(d['strength_median']), math.log10(d['load_median']), d['load_std'], d['strength_std']
    with warnings.catch_warnings():
        warnings.simplefilter('ignore')
        q, _ = integrate.quad(lambda x: norm.pdf(x, loc=0.0, scale=sc) * norm.cdf(x, loc=s50 - lm, scale=ss), -16. * sc, 16. * sc)
    return float(q)


def reproduces_defect(d):
    ref = defective_reference(d)
    return abs(d['observed'] - ref) <= 1e-9 * abs(ref) + 1e-300


def k_abs_tolerance(d):
    """quad's default absolute tolerance 1.49e-8 ends the refinement although the relative error is still large:
    small failure probabilities, absolute error within that tolerance, and the value is the one default QUADPACK gives."""
    return d['expected'] < 2e-2 and abs(d['observed'] - d['expected']) <= 2e-8 and reproduces_defect(d)


def k_step_missed(d):
    """strength distribution much narrower than the load distribution: the bisection of +-16 load scatters steps over the
    transition of the strength cdf (absolute error up to about 1e-2), and the value is the one default QUADPACK gives."""
    return d['load_std'] / d['strength_std'] >= 40.0 and 2e-8 < abs(d['observed'] - d['expected']) <= 2e-2 and reproduces_defect(d)


# --------------------------------------------------------------------------- generators

def gen_params(rng, zmode=None):
    """strength median over 6 decades, scatter ratio load/strength 1e-3..1e3, target P_f 1e-12 .. 1-1e-12."""
    sm = 10 ** rng.uniform(0, 6)
    ratio = 10 ** rng.uniform(-3, 3)
    g = 10 ** rng.uniform(-2.5, -0.5)
    ls, ss = g * math.sqrt(ratio), g / math.sqrt(ratio)
    m = zmode or rng.choice(['wide', 'wide', 'small', 'mid'])
    if m == 'wide':
        z = rng.uniform(-7.03, 7.03)
    elif m == 'small':      # log-uniform small failure probabilities
        from scipy.special import ndtri
        z = float(ndtri(10 ** rng.uniform(-12, -2)))
    else:
        z = rng.uniform(-1.0, 1.0)
    lm = 10 ** (math.log10(sm) + z * math.sqrt(ls * ls + ss * ss))
    return dict(strength_median=sm, strength_std=ss, load_median=lm, load_std=ls)


def _fp():
    import pylife.strength.failure_probability as FP
    return FP


def eval_norm(p):
    """worker: one call of pf_norm_load (and pf_simple_load at the same load)."""
    import warnings
    warnings.filterwarnings('ignore')
    try:
        fp = _fp().FailureProbability(p['strength_median'], p['strength_std'])
        kw = {}
        if 'lower_limit' in p:
            kw = dict(lower_limit=p['lower_limit'], upper_limit=p['upper_limit'])
        return float(fp.pf_norm_load(p['load_median'], p['load_std'], **kw))
    except Exception as e:     # noqa
        return 'raised %r' % (e,)


def pmap(f, xs):
    if len(xs) < 32:
        return [f(x) for x in xs]
    ctx = multiprocessing.get_context('fork')
    with ctx.Pool(common.NCPU) as pool:
        return pool.map(f, xs, chunksize=max(1, len(xs) // (4 * common.NCPU)))


def arb_case(p, n, k, rng=None):
    """grid (log10 domain, as in the library's own test) + sampled density + the rigorous trapezoid error bound."""
    from scipy.stats import norm
    sm, ss, lm, ls = p['strength_median'], p['strength_std'], p['load_median'], p['load_std']
    c = math.log10(lm)
    a, b = c - k * ls, c + k * ls
    if rng is None:
        x = np.linspace(a, b, n)
    else:
        x = np.sort(np.concatenate([[a, b], a + (b - a) * np.array([rng.random() for _ in range(n - 2)])]))
    pdf = norm.pdf(x, loc=c, scale=ls)
    h = float(np.max(np.diff(x)))
    # |f''| <= |phi_l''| + 2 |phi_l'| phi_s + phi_l |phi_s'|  with  max phi = 0.39895, max |phi'| = 0.24198, max |phi''| = 0.39895
    m2 = 0.39895 / ls ** 3 + 2 * 0.24198 * 0.39895 / (ls * ls * ss) + 0.39895 * 0.24198 / (ls * ss * ss)
    bound = (b - a) * h * h / 12.0 * m2 + 2 * ndtr(-k) + 1e-12
    return x, pdf, bound


# --------------------------------------------------------------------------- relations on the implementation

class Relations:
    def __init__(self, res):
        self.res = res
        self.n = 0
        self.nontrivial = set()
        self.flagged = 0
        self.skipped_pairs = 0
        self.raised = 0

    def bad(self, what, **kw):
        return self.res.violation(what, **kw)

    # -- one point against the closed form; returns True iff it agrees (a disagreement is reported here, once)
    def point(self, p, got):
        self.n += 1
        exp, z = closed_form(p['strength_median'], p['strength_std'], p['load_median'], p['load_std'])
        if isinstance(got, str):
            self.raised += 1
            self.bad(W_ERR, observed=got, **p)
            return False
        ok = True
        if not (0.0 <= got <= 1.0 + 1e-12) or got != got:
            self.bad(W_RANGE, function='pf_norm_load', observed=got, **p)
            ok = False
        if not abs(got - exp) <= RTOL * exp:
            self.bad(W_CLOSED, observed=got, expected=exp, z=z, **p)
            self.flagged += 1
            ok = False
        if 1e-12 <= exp <= 1 - 1e-12:
            self.nontrivial.add((p['strength_median'], p['strength_std'], p['load_median'], p['load_std']))
        return ok

    def monotone(self, what, ps, gots, oks, increasing):
        """ps ordered such that the closed form increases (increasing=True) / decreases along the chain."""
        for i in range(len(ps) - 1):
            if not (oks[i] and oks[i + 1]):
                self.skipped_pairs += 1      # an endpoint is already reported as a failing input of the closed-form relation
                continue
            self.n += 1
            a, b = (gots[i], gots[i + 1]) if increasing else (gots[i + 1], gots[i])
            ea = closed_form(**_cf(ps[i] if increasing else ps[i + 1]))[0]
            eb = closed_form(**_cf(ps[i + 1] if increasing else ps[i]))[0]
            strict = eb - ea > 1e-5 * eb
            if b < a * (1 - 1e-7) or (strict and not b > a):
                self.bad(what, first=ps[i], second=ps[i + 1], observed_first=gots[i], observed_second=gots[i + 1])


def _cf(p):
    return dict(sm=p['strength_median'], ss=p['strength_std'], lm=p['load_median'], ls=p['load_std'])


def corpus_points():
    path = os.path.join(common.CORPUS, 'C15', 'points.json')
    keys = ('strength_median', 'strength_std', 'load_median', 'load_std')
    try:
        return [{k: float(e[k]) for k in keys} for e in json.load(open(path))]
    except OSError:
        return []


def impl_relations(res, rng, n_pts, n_chain, n_lim, n_arb, n_simple):
    FP = _fp()
    R = Relations(res)
    # ---- corpus (hand-picked edge cases, run first) + sampled points + chains, evaluated in parallel
    pts = corpus_points() + [gen_params(rng) for _ in range(n_pts)]
    chains = []
    for _ in range(n_chain):
        p = gen_params(rng)
        s = math.sqrt(p['load_std'] ** 2 + p['strength_std'] ** 2)
        steps = [0.0] + sorted(rng.uniform(0.05, 3.0) for _ in range(3))
        kind = rng.choice(['load', 'strength'])
        key = 'load_median' if kind == 'load' else 'strength_median'
        ch = [dict(p, **{key: p[key] * 10 ** (d * s)}) for d in steps]
        chains.append((kind, ch))
    lims = []
    for _ in range(n_lim):
        p = gen_params(rng, rng.choice(['wide', 'mid', 'small']))
        # z0 of the deterministic load: keep it inside +-7
        z0 = rng.uniform(-7.0, 7.0) if rng.random() < 0.5 else rng.uniform(-2, 2)
        p['load_median'] = 10 ** (math.log10(p['strength_median']) + z0 * p['strength_std'])
        rs = [1e-1, 1e-2, 1e-3, 1e-5, 1e-8, 1e-12, 1e-32 / p['strength_std']]
        lims.append([dict(p, load_std=r * p['strength_std']) for r in rs])
    explicit = []
    for _ in range(max(4, n_pts // 10)):
        p = gen_params(rng)
        c = math.log10(p['load_median'])
        explicit.append((p, dict(p, lower_limit=c - 16. * p['load_std'], upper_limit=c + 16. * p['load_std'])))
    flat = pts + [q for _, ch in chains for q in ch] + [q for l in lims for q in l] + [q for pr in explicit for q in pr]
    got = pmap(eval_norm, flat)
    it = iter(got)
    for p in pts:
        R.point(p, next(it))
    for kind, ch in chains:
        g = [next(it) for _ in ch]
        oks = [R.point(p, x) for p, x in zip(ch, g)]
        if kind == 'load':
            R.monotone(W_MONO_L, ch, g, oks, True)
        else:
            R.monotone(W_MONO_S, ch, g, oks, False)
    for l in lims:
        g = [next(it) for _ in l]
        oks = [R.point(p, x) for p, x in zip(l, g)]
        fp = FP.FailureProbability(l[0]['strength_median'], l[0]['strength_std'])
        simple = float(fp.pf_simple_load(l[0]['load_median']))
        z0 = (math.log10(l[0]['load_median']) - math.log10(l[0]['strength_median'])) / l[0]['strength_std']
        for p, x, ok in zip(l, g, oks):
            if not ok:
                R.skipped_pairs += 1
                continue
            R.n += 1
            r = p['load_std'] / p['strength_std']
            # |Phi(z0/sqrt(1+r^2)) - Phi(z0)| <= max(phi) |z0| r^2 / 2
            tol = 0.2 * abs(z0) * r * r + 2 * RTOL * simple + 1e-300
            if not abs(x - simple) <= tol:
                R.bad(W_LIMIT, observed=x, pf_simple_load=simple, tolerance=tol, **p)
    for p, q in explicit:
        a, b = next(it), next(it)
        oka = R.point(p, a)
        R.n += 1
        if isinstance(b, str):
            R.bad(W_ERR, observed=b, **q)
        elif oka and not abs(a - b) <= 2 * RTOL * abs(a):
            R.bad(W_LIMITS, observed_default=a, observed_explicit=b, **q)
    # ---- pf_simple_load
    for _ in range(n_simple):
        p = gen_params(rng)
        sm, ss, L = p['strength_median'], p['strength_std'], p['load_median'] ** rng.choice([1.0, 1.0, 0.5])
        fp = FP.FailureProbability(sm, ss)
        R.n += 1
        try:
            loads = np.array([L, L * 10 ** (0.3 * ss), L * 10 ** (1.1 * ss)])
            arr = np.asarray(fp.pf_simple_load(loads), float)
            sc = [float(fp.pf_simple_load(float(x))) for x in loads]
            dec = float(FP.FailureProbability(sm * 10 ** (0.4 * ss), ss).pf_simple_load(L))
        except Exception as e:   # noqa
            R.bad(W_ERR, function='pf_simple_load', observed=repr(e), strength_median=sm, strength_std=ss, load=L)
            continue
        for x, v, a in zip(loads, sc, arr):
            z = (math.log10(x) - math.log10(sm)) / ss
            e = ndtr(z)
            # rounding of the two log10 and of the quotient moves z by dz; Phi'(z)/Phi(z) <= |z| + 1 for z < 0
            dz = 4e-16 * (abs(math.log10(x)) + abs(math.log10(sm)) + abs(z) * ss) / ss
            if not abs(v - e) <= (1e-13 + (abs(z) + 1.0) * dz) * e + 1e-300 or a != v:
                R.bad(W_SIMPLE, strength_median=sm, strength_std=ss, load=float(x), observed=v, observed_in_array=float(a), expected=e)
            if not 0.0 <= v <= 1.0:
                R.bad(W_RANGE, function='pf_simple_load', strength_median=sm, strength_std=ss, load=float(x), observed=v)
        if not (sc[0] <= sc[1] <= sc[2]) or (1e-300 < sc[0] < 0.999 and not sc[0] < sc[2]):
            R.bad('pf_simple_load does not increase with the load', strength_median=sm, strength_std=ss, loads=loads.tolist(), observed=sc)
        if not dec <= sc[0] or (1e-300 < sc[0] < 0.999 and not dec < sc[0]):
            R.bad('pf_simple_load does not decrease with the strength median', strength_median=[sm, sm * 10 ** (0.4 * ss)],
                  strength_std=ss, load=L, observed=[sc[0], dec])
    # ---- pf_arbitrary_load on a sampled log-normal density
    for j in range(n_arb):
        p = gen_params(rng, rng.choice(['wide', 'mid']))
        # the trapezoid rule needs grid spacing << both scatters: scatter ratio restricted to 1e-3 .. 30 here
        while p['load_std'] / p['strength_std'] > 30:
            p = gen_params(rng, 'mid')
        exp = closed_form(**_cf(p))[0]
        fp = FP.FailureProbability(p['strength_median'], p['strength_std'])
        for n, grid_rng in ((6001, None), (24001, None), (12000, rng)):
            x, pdf, bound = arb_case(p, n, 9.0, grid_rng)
            R.n += 1
            try:
                v = float(fp.pf_arbitrary_load(x, pdf))
            except Exception as e:   # noqa
                R.bad(W_ERR, function='pf_arbitrary_load', observed=repr(e), grid_points=n, **p)
                continue
            # range: theorem pf_arbitrary_model_bounds -- between 0 and the trapezoid sum of the sampled density itself
            # (that sum is the discrete total probability; it exceeds 1 by the discretisation error on coarse random grids)
            total = float(np.sum(np.diff(x) * (pdf[1:] + pdf[:-1]) / 2.0))
            in_range = 0.0 <= v <= total * (1 + 1e-12) + 1e-300
            if not abs(v - exp) <= bound or not in_range:
                R.bad(W_ARB if in_range else W_RANGE, function='pf_arbitrary_load', observed=v, expected=exp, tolerance=bound, density_total=total,
                      grid_points=n, half_width_in_load_std=9.0,
                      grid='uniform' if grid_rng is None else 'random (stored seed, replayed by the check)', **p)
    return R


def extended_search(res, rng, n):
    """Only used when a proof obligation is broken: the closed-form relation far in both tails."""
    ps = []
    for _ in range(n):
        p = gen_params(rng)
        s = math.sqrt(p['load_std'] ** 2 + p['strength_std'] ** 2)
        z = rng.choice([-1, 1]) * rng.uniform(7.0, 12.0)
        p['load_median'] = 10 ** (math.log10(p['strength_median']) + z * s)
        ps.append(p)
    R = Relations(res)
    for p, g in zip(ps, pmap(eval_norm, ps)):
        R.point(p, g)
    return R.n


# --------------------------------------------------------------------------- certificates

def certificates(res, rng, n_norm, n_simple, n_arb):
    """Goals closed by CoqInterval under Qed: the implementation's float result against the closed form / the models."""
    FP = _fp()
    goals, descr, arb_goals, arb_descr = [], [], [], []
    A = cert.app
    tries = 0
    cands = []
    while len(cands) < n_norm and tries < 20 * n_norm:
        tries += 1
        cands.append(gen_params(rng, ['wide', 'small', 'mid', 'wide'][tries % 4]))
    gots = pmap(eval_norm, cands)
    skipped = 0
    for p, got in zip(cands, gots):
        exp, z = closed_form(**_cf(p))
        if isinstance(got, str) or not abs(got - exp) <= RTOL * exp:
            skipped += 1        # reported by the relations (same generator family) as a failing input; nothing to certify
            continue
        tol = RTOL * exp * 1.0000001 + 1e-300
        goals.append('Rabs (%s - %s) <= %s' % (A('pf_closed_of', p['strength_median'], p['strength_std'], p['load_median'], p['load_std']),
                                               common.rlit(got), cert.tol_lit(tol)))
        descr.append(('pf_norm_load vs closed form', p['strength_median'], p['strength_std'], p['load_median'], p['load_std'], got))
    for _ in range(n_simple):
        p = gen_params(rng)
        sm, ss, L = p['strength_median'], p['strength_std'], p['load_median'] ** rng.choice([1.0, 0.5])
        v = float(FP.FailureProbability(sm, ss).pf_simple_load(L))
        if not v > 1e-30:
            continue
        goals.append('Rabs (%s - %s) <= %s' % (A('fp_pf_simple_load', sm, ss, L), common.rlit(v), cert.tol_lit(1e-9 * v)))
        descr.append(('pf_simple_load vs generated model', sm, ss, L, v))
    for _ in range(n_arb):
        p = gen_params(rng, 'mid')
        sm, ss = p['strength_median'], p['strength_std']
        k = rng.choice([2, 3, 4])
        c = math.log10(sm)
        xs = sorted(c + ss * rng.uniform(-3, 3) for _ in range(k))
        pdf = [rng.uniform(0.0, 2.0) for _ in range(k)]
        v = float(FP.FailureProbability(sm, ss).pf_arbitrary_load(np.array(xs), np.array(pdf)))
        arb_goals.append('Rabs (pf_arbitrary_model %s %s %s %s - %s) <= %s' % (
            common.rlit(sm), common.rlit(ss), common.coq_list(xs, common.rlit), common.coq_list(pdf, common.rlit),
            common.rlit(v), cert.tol_lit(1e-9 * abs(v) + 1e-12)))
        arb_descr.append(('pf_arbitrary_load vs trapezoid model', sm, ss, xs, pdf, v))
    return goals, descr, arb_goals, arb_descr, skipped


# --------------------------------------------------------------------------- run / replay

def run_certs_retry(name, req, unfolds, goals, **kw):
    """cert.run_certs; goals that failed without a Coq error message (coqc killed / out of memory on an overloaded
    machine: an infrastructure failure, not a result) are retried once."""
    ok, bad, log = cert.run_certs(name, req, unfolds, goals, **kw)
    if bad and 'Error' not in log and 'CERT-BAD' not in log:
        ok2, bad2, log2 = cert.run_certs(name + 'retry', req, unfolds, [goals[i] for i in bad], **kw)
        ok = sorted(set(ok) | {bad[i] for i in ok2})
        bad, log = [bad[i] for i in bad2], log + log2
    return ok, bad, log


def register(res):
    res.classes['quad-absolute-tolerance'] = k_abs_tolerance
    res.classes['strength-step-missed'] = k_step_missed


def still_fails(entry):
    w = entry['witness']
    got = eval_norm(w)
    exp = closed_form(**_cf(w))[0]
    return isinstance(got, str) or not abs(got - exp) <= RTOL * exp


def run(res):
    quick = res.tier == 'quick'
    register(res)
    res.trusted += ['py2coq translator + whitelist specs/c15.py (GenFailureProbability: pf_simple_load, pf_norm_load with default and with explicit limits)',
                    'CoqInterval (integral / interval tactics) for the per-run certificates; float->exact rational conversion',
                    'scipy.special.ndtr as float oracle of Phi in the relations (cross-checked against the Coq definition of Phi by the certificates)',
                    'axioms: ClassicalDedekindReals.sig_forall_dec, sig_not_dec, functional_extensionality_dep (Coq Reals), Classical_Prop.classic (Coquelicot)']
    res.assumptions += ['borrowed, not formalised: the Gaussian convolution identity int phi_ls(x) Phi((x-d)/ss) dx = Phi(-d/sqrt(ls^2+ss^2))',
                        'scipy.integrate.quad is idealised in the model as the Riemann integral over the same limits; what QUADPACK returns is checked per sample (relative 1e-6), not between samples',
                        'floating-point rounding is outside the theorems (a result may exceed 1 by rounding: 1 + 1e-12 is accepted)',
                        'pf_arbitrary_load takes load values in log10 units (as the library\'s own test does); hand-written trapezoid model tied by certificates on 2-4 point grids']
    res.cov['rule'] = ('strength median 1..1e6, geometric mean of the two scatters 0.003..0.3 (log10 units), load/strength scatter ratio 1e-3..1e3, load median chosen for a target '
                       'z = (lm-sm)/sqrt(ls^2+ss^2): uniform in +-7.03, or P_f log-uniform in 1e-12..1e-2, or |z|<1; non-trivial = distinct parameter tuple whose closed-form '
                       'P_f lies in [1e-12, 1-1e-12]')
    proofs_ok = common.standard_proof_stage(res, 'C15', extra_targets=['theories/Common/Cert.vo', 'theories/Strength/C15Cert.vo'], gen_fn=lambda: gen_specs.generate(GEN))
    # D2 first (cheap, and it is the failing-input search): the relations on the implementation
    n_pts, n_chain, n_lim, n_arb, n_simple = (400, 60, 25, 12, 60) if quick else (3000, 400, 150, 60, 400)
    R = impl_relations(res, res.rng, n_pts, n_chain, n_lim, n_arb, n_simple)
    res.add_cases(R.n, nontrivial=len(R.nontrivial))
    res.cov['impl_relation_evaluations'] = R.n
    res.cov['closed_form_disagreements'] = R.flagged
    res.cov['relation_pairs_skipped_because_endpoint_already_reported'] = R.skipped_pairs
    res.cov['calls_that_raised'] = R.raised
    if not proofs_ok:
        # a proof obligation broke: widen the failing-input search beyond the property's stated range (|z| up to 12,
        # i.e. failure probabilities down to 1.8e-33; further out the +-16 scatter truncation of the integral itself
        # limits the relative accuracy), where a changed limit / constant shows
        k = extended_search(res, res.rng, 300 if quick else 3000)
        res.add_cases(k)
        res.cov['extended_search_evaluations'] = k
    # D1: certificates (need the compiled theories)
    if proofs_ok:
        try:
            n_norm, n_s, n_a = (28, 8, 4) if quick else (300, 40, 20)
            goals, descr, ag, ad, skipped = certificates(res, res.rng, n_norm, n_s, n_a)
            nshard = max(1, common.NCPU)        # never more than NCPU coqc processes at a time
            ok, bad, log = run_certs_retry('C15', REQ, UNFOLD, goals, chunk=max(1, -(-len(goals) // nshard)), timeout=1500, final_tac=INTEGRAL)
            ok2, bad2, log2 = run_certs_retry('C15arb', REQ, [], ag, chunk=max(1, -(-len(ag) // nshard)), timeout=1500, extra_tac=ARB_UNFOLD, final_tac=ARB_FINAL)
            oks = set(ok) | {len(goals) + i for i in ok2}
            bad = list(bad) + [len(goals) + i for i in bad2]
            goals, descr, log = goals + ag, descr + ad, log + log2
            for i in range(len(goals)):
                res.oblige('certificate %s' % (descr[i],), i in oks, log if i not in oks else '')
            res.add_cases(len(goals), nontrivial=len({repr(d) for d in descr}))
            for d in descr[:3] + descr[-2:]:
                res.sample({'certificate': d})
            res.cov['certificate_goals'] = len(goals)
            res.cov['certificate_candidates_skipped_as_reported_failures'] = skipped
            res.cov['certificate_failed_inputs'] = [descr[i] for i in bad][:20]
        except Exception as e:   # noqa
            res.oblige('certificates could be generated and run', False, repr(e))
    res.replay_known(still_fails)


def replay(res, rp):
    """Re-evaluate the stored failing input on the current implementation."""
    register(res)
    v = rp.get('violation') or {}
    what = v.get('what')
    print('replaying: %s' % what)
    keys = ('strength_median', 'strength_std', 'load_median', 'load_std')
    if what in (W_CLOSED, W_RANGE, W_LIMIT, W_ERR) and all(k in v for k in keys) and v.get('function', 'pf_norm_load') == 'pf_norm_load':
        p = {k: v[k] for k in keys}
        got = eval_norm(p)
        exp, z = closed_form(**_cf(p))
        print(json.dumps({'input': p, 'observed_now': got, 'closed_form': exp, 'observed_then': v.get('observed')}))
        R = Relations(res)
        ok = R.point(p, got)
        if what == W_LIMIT and ok:
            simple = float(_fp().FailureProbability(p['strength_median'], p['strength_std']).pf_simple_load(p['load_median']))
            if not abs(got - simple) <= v['tolerance']:
                res.violation(W_LIMIT, observed=got, pf_simple_load=simple, tolerance=v['tolerance'], **p)
        res.add_cases(1)
        return res.finish()
    if what in (W_MONO_L, W_MONO_S) and 'first' in v:
        ps = [v['first'], v['second']]
        g = [eval_norm(p) for p in ps]
        print(json.dumps({'inputs': ps, 'observed_now': g}))
        R = Relations(res)
        oks = [R.point(p, x) for p, x in zip(ps, g)]
        R.monotone(what, ps, g, oks, what == W_MONO_L)
        res.add_cases(2)
        return res.finish()
    # anything else (pf_arbitrary_load on a random grid, pf_simple_load, broken obligation): the run is deterministic in the seed
    os.environ['VERIF_SEED'] = str(rp.get('seed', 0))
    res.tier = rp.get('tier', res.tier)
    res.seed = rp.get('seed', res.seed)
    import random
    res.rng = random.Random(res.seed)
    run(res)
    return res.finish()
