"""Interval certificates (DESIGN 2.3): the Coq kernel checks, for sampled inputs, that the generated
real-valued model evaluated at the exact rational image of the float inputs lies within a stated
tolerance of what the implementation returned."""
import math
import re
from fractions import Fraction

from common import coq_scratch_many, rlit

HEADER = ('From Coq Require Import Reals Lra.\nFrom Interval Require Import Tactic.\n'
          'From PL Require Import Common.RPrelude Common.Cert.\n%s\nOpen Scope R_scope.\n\n')


def tol_lit(t):
    """A tolerance as an exact rational literal (rounded up to 3 significant digits)."""
    if t <= 0:
        raise ValueError('tolerance must be positive')
    e = math.floor(math.log10(t)) - 2
    m = math.ceil(t / 10.0 ** e)
    fr = Fraction(m) * (Fraction(10) ** e)
    return '(%d / %d)' % (fr.numerator, fr.denominator)


def near(expr, value, rtol=1e-9, atol=1e-12):
    """Goal text: |expr - value| <= atol + rtol*|value|."""
    t = atol + rtol * abs(value)
    return 'Rabs (%s - %s) <= %s' % (expr, rlit(value), tol_lit(t))


def near_tuple(expr, values, names=None, rtol=1e-9, atol=1e-12):
    names = names or ['c%d' % i for i in range(len(values))]
    parts = ' /\\ '.join(near(n, v, rtol, atol) for n, v in zip(names, values))
    return "let '(%s) := %s in %s" % (', '.join(names), expr, parts)


def app(fn, *args):
    return '(' + ' '.join([fn] + [rlit(a) if not isinstance(a, str) else a for a in args]) + ')'


def run_certs(name, requires, unfolds, goals, prec=80, chunk=60, timeout=900, extra_tac='', pre_tac='', final_tac=None):
    """Compile the goals in parallel shards.  Returns (ok_indices, bad_indices, log_tail).

    Every goal in ok_indices was closed under Qed by coqc (kernel-checked)."""
    req = '\n'.join(requires)
    unf = ('unfold %s.' % ', '.join(unfolds)) if unfolds else ''
    # pre_tac runs on the whole goal before conjunctions are split (shared decisions are then resolved once), extra_tac on every conjunct
    tac = '%s cbv beta iota zeta; %s repeat match goal with |- _ /\\ _ => split end; %s cert_prep; %s' % (
        unf and unf[:-1] + ';', pre_tac, extra_tac, final_tac or ('interval with (i_prec %d)' % prec))

    def shard_text(idx, diag):
        out = HEADER % req
        for i in idx:
            if diag:
                out += 'Goal %s.\nProof. tryif (solve [%s]) then idtac "CERT-OK %d" else idtac "CERT-BAD %d". Abort.\n' % (goals[i], tac, i, i)
            else:
                out += 'Goal %s.\nProof. %s. Qed.\n' % (goals[i], tac)
        return out

    shards = [list(range(k, min(k + chunk, len(goals)))) for k in range(0, len(goals), chunk)]
    res = coq_scratch_many([('%s_cert_%d' % (name, j), shard_text(idx, False)) for j, idx in enumerate(shards)], timeout)
    ok, bad, logs = [], [], []
    redo = []
    for j, (idx, (good, out)) in enumerate(zip(shards, res)):
        if good:
            ok.extend(idx)
        else:
            redo.append((j, idx))
            logs.append(out[-1500:])
    if redo:
        res2 = coq_scratch_many([('%s_certdiag_%d' % (name, j), shard_text(idx, True)) for j, idx in redo], timeout)
        for (j, idx), (good, out) in zip(redo, res2):
            oks = {int(x) for x in re.findall(r'CERT-OK (\d+)', out)}
            bads = {int(x) for x in re.findall(r'CERT-BAD (\d+)', out)}
            for i in idx:
                if i in oks and i not in bads:
                    pass
                else:
                    bad.append(i)
            # goals that passed the diagnostic run are re-certified under Qed
            good_idx = [i for i in idx if i in oks and i not in bads]
            if good_idx:
                g, o = coq_scratch_many([('%s_cert_%d_r' % (name, j), shard_text(good_idx, False))], timeout)[0]
                if g:
                    ok.extend(good_idx)
                else:
                    bad.extend(good_idx)
                    logs.append(o[-1500:])
    return sorted(ok), sorted(bad), '\n'.join(logs)
