"""py2coq_sym: fail-closed *symbolic execution* of small imperative numeric methods (loops over literal
ranges, nested helper functions with integer control flow, element tables read from a DataFrame) into
Coq definitions over R.  Companion of py2coq.py (DESIGN 2.1: "for over literal tuples with literal bounds
(unrolled: the hexahedral shape-function loops)"); used for pylife/mesh/gradient.py.

How it works.  The method's AST is interpreted statement by statement.  A value is either *concrete*
(a Python int/float/bool/str/tuple/list: computed with Python's own operators, so integer control flow,
`a in [1,2,5,6]`, `1-xi if a == 0 else xi`, `enumerate`, `range` behave exactly as in the source) or
*symbolic* (`Sym`: the text of a Coq term of type R).  Any arithmetic that touches a symbolic value
builds a Coq term; control flow on a symbolic value, or any construct not listed below, raises
`Unsupported`.  The element table `df` is an abstract object: `df.iloc[r, :3]` are the symbols
x<r+1>1..x<r+1>3, `df.iloc[:k, 3]` the nodal values f1..fk, `df.iloc[r, 4:7] = [..]` records output row r.
`np.linalg.inv(J)` is *not* interpreted: call number m records the matrix it was given and returns a matrix
of fresh symbols v<m>_11..v<m>_33 (the inverse enters the theorems as a contract).  The handler of
`try: ... except np.linalg.LinAlgError` (singular Jacobian) is outside the model.

Output per method: `<prefix>J_<m>` (the matrix passed to the m-th inversion, as rows of triples),
`<prefix>row_<r>` (the gradient written to row r, as a function of the coordinates, nodal values and of
the inverse symbols it mentions) and `<prefix>init` (initial value of the gradient columns)."""
import ast
import operator

from py2coq import Unsupported, lit, strip_doc


class Sym:
    __slots__ = ('s',)

    def __init__(self, s):
        self.s = s


def is_num(v):
    return isinstance(v, (int, float, bool))


def coq(v):
    if isinstance(v, Sym):
        return v.s
    if isinstance(v, bool):
        return lit(int(v))
    if isinstance(v, (int, float)):
        return lit(v)
    raise Unsupported('value %r has no Coq image' % (v,))


BIN = {ast.Add: ('+', operator.add), ast.Sub: ('-', operator.sub), ast.Mult: ('*', operator.mul),
       ast.Div: ('/', operator.truediv)}
CMP = {ast.Eq: operator.eq, ast.NotEq: operator.ne, ast.Lt: operator.lt, ast.LtE: operator.le,
       ast.Gt: operator.gt, ast.GtE: operator.ge, ast.In: lambda a, b: a in b, ast.NotIn: lambda a, b: a not in b}


def binop(op, a, b):
    if isinstance(op, ast.Pow) and isinstance(b, int) and not isinstance(b, bool) and 0 <= b <= 4:
        return a ** b if is_num(a) else Sym('(%s ^ %d)' % (coq(a), b))
    if type(op) not in BIN:
        raise Unsupported('operator ' + type(op).__name__)
    sym, fn = BIN[type(op)]
    if is_num(a) and is_num(b):
        r = fn(a, b)
        if isinstance(r, float) and not r.is_integer() and isinstance(a, int) and isinstance(b, int):
            raise Unsupported('inexact integer division')
        return r
    if (is_num(a) or isinstance(a, Sym)) and (is_num(b) or isinstance(b, Sym)):
        return Sym('(%s %s %s)' % (coq(a), sym, coq(b)))
    raise Unsupported('arithmetic on %r, %r' % (type(a).__name__, type(b).__name__))


class Closure:
    def __init__(self, fn, env):
        self.fn, self.env = fn, env


class Mat:
    """3x3 matrix of values (np.array of a nested list / result of np.linalg.inv)."""

    def __init__(self, rows):
        if len(rows) != 3 or any(len(r) != 3 for r in rows):
            raise Unsupported('only 3x3 matrices')
        self.rows = [list(r) for r in rows]


class Vec:
    def __init__(self, items):
        self.items = list(items)


class Df:
    """The per-element table: columns x, y, z, value (+ the gradient columns the method adds)."""

    def __init__(self, nrows):
        self.nrows = nrows
        self.cols = ['x', 'y', 'z', 'value']
        self.init = {}
        self.out = {}


class Marker:
    def __init__(self, name, **kw):
        self.name = name
        self.__dict__.update(kw)


class _Continue(Exception):
    pass


class _Return(Exception):
    def __init__(self, v):
        self.v = v


class Interp:
    def __init__(self, tree, cls, stub_methods=()):
        self.cls = next((n for n in tree.body if isinstance(n, ast.ClassDef) and n.name == cls), None)
        if self.cls is None:
            raise Unsupported('class %s not found' % cls)
        self.methods = {n.name: n for n in self.cls.body if isinstance(n, ast.FunctionDef)}
        self.attrs = {}
        self.inv_calls = []
        self.stub_methods = set(stub_methods)
        self.called = []
        self.steps = 0

    # ------------------------------------------------------------------ calls
    def call_method(self, name, args):
        if name in self.stub_methods:
            self.called.append(name)
            return Marker('stub', method=name)
        fn = self.methods.get(name)
        if fn is None:
            raise Unsupported('method %s not found' % name)
        return self.call_fn(fn, {}, args, bind_self=True)

    def call_fn(self, fn, env0, args, bind_self=False):
        a = fn.args
        if a.vararg or a.kwarg or a.kwonlyargs or a.defaults or a.posonlyargs:
            raise Unsupported('signature of %s' % fn.name)
        names = [x.arg for x in a.args]
        env = dict(env0)
        if bind_self:
            if not names or names[0] != 'self':
                raise Unsupported('method %s without self' % fn.name)
            env['self'] = Marker('self')
            names = names[1:]
        if len(names) != len(args):
            raise Unsupported('arity of %s' % fn.name)
        env.update(zip(names, args))
        try:
            self.block(strip_doc(fn.body), env)
        except _Return as r:
            return r.v
        return None

    # ------------------------------------------------------------------ statements
    def block(self, stmts, env):
        for st in stmts:
            self.stmt(st, env)

    def stmt(self, st, env):
        self.steps += 1
        if self.steps > 200000:
            raise Unsupported('step budget exhausted')
        if isinstance(st, ast.Expr):
            if isinstance(st.value, ast.Constant) and isinstance(st.value.value, str):
                return
            if isinstance(st.value, ast.Call) and ast.unparse(st.value.func) == 'warnings.warn':
                self.called.append('warnings.warn')
                return
            self.expr(st.value, env)
            return
        if isinstance(st, ast.Pass):
            return
        if isinstance(st, ast.FunctionDef):
            env[st.name] = Closure(st, env)
            return
        if isinstance(st, ast.Return):
            raise _Return(self.expr(st.value, env) if st.value is not None else None)
        if isinstance(st, ast.Continue):
            raise _Continue()
        if isinstance(st, ast.Assign):
            if len(st.targets) != 1:
                raise Unsupported('chained assignment')
            self.assign(st.targets[0], self.expr(st.value, env), env)
            return
        if isinstance(st, ast.AugAssign):
            cur = self.expr(st.target, env)
            self.assign(st.target, binop(st.op, cur, self.expr(st.value, env)), env)
            return
        if isinstance(st, ast.If):
            t = self.expr(st.test, env)
            if not isinstance(t, (bool, int)):
                raise Unsupported('branch on a non-concrete value: ' + ast.unparse(st.test)[:60])
            self.block(st.body if t else st.orelse, env)
            return
        if isinstance(st, ast.For):
            if st.orelse:
                raise Unsupported('for/else')
            it = self.expr(st.iter, env)
            if isinstance(it, Vec):
                it = it.items
            if not isinstance(it, (list, tuple)):
                raise Unsupported('loop over a non-literal sequence: ' + ast.unparse(st.iter)[:60])
            for v in it:
                self.assign(st.target, v, env)
                try:
                    self.block(st.body, env)
                except _Continue:
                    continue
            return
        if isinstance(st, ast.Try):
            ok = (len(st.handlers) == 1 and not st.orelse and not st.finalbody
                  and st.handlers[0].type is not None
                  and ast.unparse(st.handlers[0].type) in ('np.linalg.LinAlgError', 'numpy.linalg.LinAlgError'))
            if not ok:
                raise Unsupported('try statement other than the singular-matrix guard')
            self.block(st.body, env)     # the handler (singular Jacobian) is outside the model
            return
        raise Unsupported('statement ' + ast.unparse(st)[:70])

    def assign(self, t, v, env):
        if isinstance(t, ast.Name):
            env[t.id] = v
            return
        if isinstance(t, (ast.Tuple, ast.List)):
            if isinstance(v, Vec):
                v = v.items
            if not isinstance(v, (tuple, list)) or len(v) != len(t.elts):
                raise Unsupported('unpacking ' + ast.unparse(t)[:50])
            for e, x in zip(t.elts, v):
                self.assign(e, x, env)
            return
        if isinstance(t, ast.Attribute) and isinstance(t.value, ast.Name) and isinstance(env.get(t.value.id), Marker) \
                and env[t.value.id].name == 'self':
            self.attrs[t.attr] = v
            return
        if isinstance(t, ast.Subscript):
            base = self.expr(t.value, env)
            if isinstance(base, list):
                i = self.expr(t.slice, env)
                if not isinstance(i, int) or isinstance(i, bool) or not 0 <= i < len(base):
                    raise Unsupported('list index')
                base[i] = v
                return
            if isinstance(base, Df):
                k = self.expr(t.slice, env)
                if not isinstance(k, str) or not is_num(v):
                    raise Unsupported('df[...] assignment')
                if k not in base.cols:
                    base.cols.append(k)
                base.init[k] = v
                return
            if isinstance(base, Marker) and base.name == 'iloc':
                r, c = self.iloc_key(t.slice, env)
                if not isinstance(r, int) or not isinstance(c, slice):
                    raise Unsupported('iloc assignment shape')
                cols = base.df.cols[c]
                if cols != ['grad_x', 'grad_y', 'grad_z'] or not 0 <= r < base.df.nrows:
                    raise Unsupported('iloc assignment does not address the gradient columns: %r' % (cols,))
                if isinstance(v, Vec):
                    v = v.items
                if not isinstance(v, (list, tuple)) or len(v) != 3:
                    raise Unsupported('iloc assignment value')
                base.df.out[r] = [x for x in v]
                return
        raise Unsupported('assignment target ' + ast.unparse(t)[:60])

    def iloc_key(self, sl, env):
        if not isinstance(sl, ast.Tuple) or len(sl.elts) != 2:
            raise Unsupported('iloc key')
        out = []
        for e in sl.elts:
            if isinstance(e, ast.Slice):
                if e.step is not None:
                    raise Unsupported('slice step')
                lo = self.expr(e.lower, env) if e.lower is not None else None
                hi = self.expr(e.upper, env) if e.upper is not None else None
                out.append(slice(lo, hi))
            else:
                v = self.expr(e, env)
                if not isinstance(v, int) or isinstance(v, bool):
                    raise Unsupported('iloc index')
                out.append(v)
        return out

    # ------------------------------------------------------------------ expressions
    def expr(self, n, env):
        if isinstance(n, ast.Constant):
            if isinstance(n.value, (int, float, str, bool)) or n.value is None:
                return n.value
            raise Unsupported('constant %r' % (n.value,))
        if isinstance(n, ast.Name):
            if n.id in env:
                return env[n.id]
            if n.id in ('np', 'numpy'):
                return Marker('np')
            if n.id in ('range', 'enumerate', 'len', 'float', 'int', 'list', 'tuple', 'sum', 'zip'):
                return Marker('builtin', id=n.id)
            raise Unsupported('free name ' + n.id)
        if isinstance(n, (ast.Tuple, ast.List)):
            vs = [self.expr(e, env) for e in n.elts]
            return tuple(vs) if isinstance(n, ast.Tuple) else vs
        if isinstance(n, ast.UnaryOp):
            v = self.expr(n.operand, env)
            if isinstance(n.op, ast.USub):
                return -v if is_num(v) else Sym('(- %s)' % coq(v))
            if isinstance(n.op, ast.UAdd):
                return v
            if isinstance(n.op, ast.Not) and isinstance(v, (bool, int)):
                return not v
            raise Unsupported('unary ' + type(n.op).__name__)
        if isinstance(n, ast.BinOp):
            return binop(n.op, self.expr(n.left, env), self.expr(n.right, env))
        if isinstance(n, ast.BoolOp):
            vs = [self.expr(v, env) for v in n.values]
            if not all(isinstance(v, (bool, int)) for v in vs):
                raise Unsupported('boolean operator on non-concrete values')
            return all(vs) if isinstance(n.op, ast.And) else any(vs)
        if isinstance(n, ast.Compare):
            if len(n.ops) != 1:
                raise Unsupported('chained comparison')
            a, b = self.expr(n.left, env), self.expr(n.comparators[0], env)
            conc = lambda v: is_num(v) or (isinstance(v, (list, tuple)) and all(is_num(x) for x in v))
            if not (conc(a) and conc(b)) or type(n.ops[0]) not in CMP:
                raise Unsupported('comparison on non-concrete values: ' + ast.unparse(n)[:60])
            return CMP[type(n.ops[0])](a, b)
        if isinstance(n, ast.IfExp):
            t = self.expr(n.test, env)
            if not isinstance(t, (bool, int)):
                raise Unsupported('conditional expression on a non-concrete value')
            return self.expr(n.body if t else n.orelse, env)
        if isinstance(n, ast.Attribute):
            b = self.expr(n.value, env)
            if isinstance(b, Marker) and b.name == 'self':
                if n.attr in self.attrs:
                    return self.attrs[n.attr]
                if n.attr in self.methods:
                    return Marker('method', method=n.attr)
                raise Unsupported('self.%s read before assignment' % n.attr)
            if isinstance(b, Marker) and b.name == 'np' and n.attr == 'linalg':
                return Marker('np.linalg')
            if isinstance(b, Marker) and b.name == 'np' and n.attr == 'array':
                return Marker('np.array')
            if isinstance(b, Marker) and b.name == 'np.linalg' and n.attr == 'inv':
                return Marker('np.linalg.inv')
            if isinstance(b, Df) and n.attr == 'iloc':
                return Marker('iloc', df=b)
            if isinstance(b, Vec) and n.attr == 'iloc':
                return b
            raise Unsupported('attribute ' + ast.unparse(n)[:60])
        if isinstance(n, ast.Subscript):
            b = self.expr(n.value, env)
            if isinstance(b, Marker) and b.name == 'iloc':
                r, c = self.iloc_key(n.slice, env)
                df = b.df
                if isinstance(r, int) and isinstance(c, slice):
                    if not 0 <= r < df.nrows or df.cols[c] != ['x', 'y', 'z']:
                        raise Unsupported('row read does not address the coordinate columns')
                    return tuple(Sym('x%d%d' % (r + 1, j + 1)) for j in range(3))
                if isinstance(r, slice) and isinstance(c, int):
                    rows = list(range(df.nrows))[r]
                    if df.cols[c] != 'value' or not rows or rows != list(range(len(rows))):
                        raise Unsupported('column read does not address the leading nodal values')
                    return Vec([Sym('f%d' % (i + 1)) for i in rows])
                raise Unsupported('iloc read shape')
            if isinstance(b, Mat):
                k = self.expr(n.slice, env)
                if not (isinstance(k, tuple) and len(k) == 2 and all(isinstance(i, int) and 0 <= i < 3 for i in k)):
                    raise Unsupported('matrix index ' + ast.unparse(n.slice)[:40])
                return b.rows[k[0]][k[1]]
            k = self.expr(n.slice, env)
            if isinstance(b, Vec):
                b = b.items
            if isinstance(b, (list, tuple)) and isinstance(k, int) and not isinstance(k, bool) and 0 <= k < len(b):
                return b[k]
            raise Unsupported('subscript ' + ast.unparse(n)[:60])
        if isinstance(n, (ast.ListComp, ast.GeneratorExp)):
            if len(n.generators) != 1 or n.generators[0].is_async:
                raise Unsupported('nested comprehension')
            gen = n.generators[0]
            it = self.expr(gen.iter, env)
            if isinstance(it, Vec):
                it = it.items
            if not isinstance(it, (list, tuple)):
                raise Unsupported('comprehension over a non-literal sequence')
            out = []
            env2 = dict(env)
            for v in it:
                self.assign(gen.target, v, env2)
                conds = [self.expr(c, env2) for c in gen.ifs]
                if not all(isinstance(c, (bool, int)) for c in conds):
                    raise Unsupported('comprehension filter on a non-concrete value')
                if all(conds):
                    out.append(self.expr(n.elt, env2))
            return out
        if isinstance(n, ast.Call):
            if n.keywords:
                raise Unsupported('keyword arguments in ' + ast.unparse(n)[:60])
            f = self.expr(n.func, env)
            args = [self.expr(a, env) for a in n.args]
            if isinstance(f, Closure):
                return self.call_fn(f.fn, f.env, args)
            if isinstance(f, Marker) and f.name == 'method':
                return self.call_method(f.method, args)
            if isinstance(f, Marker) and f.name == 'builtin':
                if f.id == 'range' and all(isinstance(a, int) for a in args):
                    return list(range(*args))
                if f.id == 'enumerate' and len(args) == 1 and isinstance(args[0], (list, tuple)):
                    return [(i, v) for i, v in enumerate(args[0])]
                if f.id == 'len' and len(args) == 1:
                    if isinstance(args[0], Df):
                        return args[0].nrows
                    if isinstance(args[0], (list, tuple)):
                        return len(args[0])
                if f.id in ('list', 'tuple') and len(args) == 1 and isinstance(args[0], (list, tuple)):
                    return list(args[0]) if f.id == 'list' else tuple(args[0])
                if f.id == 'sum' and len(args) == 1 and isinstance(args[0], (list, tuple)):
                    acc = 0
                    for v in args[0]:
                        acc = binop(ast.Add(), acc, v)
                    return acc
                if f.id == 'zip' and args and all(isinstance(a, (list, tuple, Vec)) for a in args):
                    return [tuple(t) for t in zip(*[a.items if isinstance(a, Vec) else a for a in args])]
                if f.id in ('float', 'int') and len(args) == 1 and is_num(args[0]) and float(args[0]) == int(args[0]):
                    return args[0]
                raise Unsupported('builtin call ' + ast.unparse(n)[:60])
            if isinstance(f, Marker) and f.name == 'np.array' and len(args) == 1:
                return Mat(args[0])
            if isinstance(f, Marker) and f.name == 'np.linalg.inv' and len(args) == 1 and isinstance(args[0], Mat):
                m = len(self.inv_calls)
                self.inv_calls.append(args[0])
                return Mat([[Sym('v%d_%d%d' % (m, i + 1, j + 1)) for j in range(3)] for i in range(3)])
            raise Unsupported('call ' + ast.unparse(n)[:70])
        raise Unsupported('expression ' + ast.unparse(n)[:70])


def _params(names):
    return ' '.join('(%s : R)' % p for p in names)


def element_method(tree, cls, method, prefix, nnodes, nrows):
    """Symbolically run `cls.method(df)` on an element table with nrows rows of which the first nnodes carry
    the geometry.  Returns (coq text, signature dict)."""
    ip = Interp(tree, cls)
    df = Df(nrows)
    ret = ip.call_method(method, [df])
    if ret is not df:
        raise Unsupported('%s does not return the element table' % method)
    xs = ['x%d%d' % (r + 1, j + 1) for r in range(nnodes) for j in range(3)]
    fs = ['f%d' % (r + 1) for r in range(nnodes)]
    import re
    out, sigs = '', {}
    if set(df.init) != {'grad_x', 'grad_y', 'grad_z'}:
        raise Unsupported('gradient columns are not initialised: %r' % sorted(df.init))
    out += 'Definition %sinit : R * R * R := (%s, %s, %s).\n\n' % (
        prefix, coq(df.init['grad_x']), coq(df.init['grad_y']), coq(df.init['grad_z']))
    out += 'Definition %sninv : nat := %d.\nDefinition %srows : list nat := (%s)%%list.\n\n' % (
        prefix, len(ip.inv_calls), prefix, ' :: '.join('%d%%nat' % r for r in sorted(df.out)) + ' :: nil')
    used = lambda text, names: [p for p in names if re.search(r'\b%s\b' % p, text)]
    for m, J in enumerate(ip.inv_calls):
        body = ',\n   '.join('(%s)' % ', '.join(coq(v) for v in row) for row in J.rows)
        bad = set(re.findall(r'\b[xfv]\d+(?:_\d+)?\b', body)) - set(xs)
        if bad:
            raise Unsupported('Jacobian %d mentions %s' % (m, sorted(bad)))
        out += 'Definition %sJ_%d %s : (R * R * R) * (R * R * R) * (R * R * R) :=\n  (%s).\n\n' % (prefix, m, _params(xs), body)
        sigs['%sJ_%d' % (prefix, m)] = dict(params=xs, body=[[coq(v) for v in row] for row in J.rows])
    for r in sorted(df.out):
        body = ',\n   '.join(coq(v) for v in df.out[r])
        invs = sorted({int(k) for k in re.findall(r'\bv(\d+)_\d\d\b', body)})
        vs = ['v%d_%d%d' % (m, i + 1, j + 1) for m in invs for i in range(3) for j in range(3)]
        bad = set(re.findall(r'\b[xfv]\d+(?:_\d+)?\b', body)) - set(xs) - set(fs) - set(vs)
        if bad:
            raise Unsupported('row %d mentions %s' % (r, sorted(bad)))
        out += '(* inverse calls used: %s *)\nDefinition %srow_%d %s : R * R * R :=\n  (%s).\n\n' % (
            invs, prefix, r, _params(xs + fs + vs), body)
        sigs['%srow_%d' % (prefix, r)] = dict(params=xs + fs + vs, invs=invs, body=[coq(v) for v in df.out[r]])
    return out, sigs


def dispatch_table(tree, cls, method, stubs, upto):
    """Which per-element method `cls.method(df)` selects for a table of n rows, n = 0..upto:
    index into `stubs` + 1, or 0 when none is called (the source warns and returns the table unchanged)."""
    tab = []
    for n in range(upto + 1):
        ip = Interp(tree, cls, stub_methods=stubs)
        ip.call_method(method, [Df(n)])
        calls = [c for c in ip.called if c in stubs]
        if len(calls) > 1:
            raise Unsupported('more than one element method selected for %d rows' % n)
        tab.append(stubs.index(calls[0]) + 1 if calls else 0)
    return tab


def eval_exact(text, env):
    """Evaluate the text of a generated (division-free or rational-literal) Coq R expression exactly with
    Fractions.  Only used to produce *hints* for certificate proofs (the kernel re-checks every value)."""
    import re
    from fractions import Fraction
    py = re.sub(r'(?<![A-Za-z_0-9])(\d+)(?![A-Za-z_0-9])', r'F(\1)', text)
    return eval(py, {'__builtins__': {}, 'F': Fraction}, dict(env))     # noqa: S307 (text produced by this module)


def translate_item(tree, it):
    """Entry point used by py2coq.translate_module for items with a 'symbolic' key."""
    kind = it['symbolic']
    if kind == 'element':
        return element_method(tree, it['cls'], it['method'], it['prefix'], it['nnodes'], it['nrows'])
    if kind == 'dispatch':
        tab = dispatch_table(tree, it['cls'], it['method'], list(it['stubs']), it['upto'])
        text = 'Definition %stable : list nat := (%s :: nil)%%list.\n\n' % (it['prefix'], ' :: '.join('%d%%nat' % t for t in tab))
        return text, {it['prefix'] + 'table': tab}
    raise Unsupported('symbolic item kind %r' % kind)
