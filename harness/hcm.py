"""Shared harness code of the FKM-nonlinear HCM family (C04, C05): running the real detector, the injected
integer-valued law, Coq literals of the observations, the property oracle (steady-state cycles) and generators.

Nothing here is the *model*: the model is coq/theories/HCM/*.v and is evaluated by vm_compute (common.coq_compare).
The small Python functions below (periodic reversals / four-point spec / class predicates) are the search oracle;
they are themselves tied to their Gallina counterparts on every run (c04.py: 'oracle = Coq spec')."""
import itertools
from concurrent.futures import ProcessPoolExecutor

import numpy as np
import pandas as pd

import common
from common import zlit, nlit, coq_list

REQ = ['From PL Require Import Rainflow.Model HCM.Model HCM.Load HCM.Periodic HCM.Full HCM.Eqb.', 'Open Scope Z_scope.']


# --------------------------------------------------------------------------- injected law (integer valued, odd)
def sgn(x):
    return (x > 0) - (x < 0)


def sig(L):
    return 3 * L + sgn(L) * L * L


def eps(s, L):
    return 2 * s + sgn(s) * (abs(s) // 3) + 7 * L


def dsig(d):
    return 5 * d + sgn(d) * d * d


def deps(ds, d):
    return 3 * ds + sgn(ds) * (abs(ds) // 4) + 11 * d


class IntLaw:
    """Notch-approximation-law stand-in whose four functions are integer valued on integers and odd; every value that
    occurs stays far below 2^52, so the detector's float arithmetic is exact and can be compared bit for bit with the
    Gallina model instantiated with the same four functions (HCM/Full.v: isig, ieps, idsig, ideps)."""
    ramberg_osgood_relation = None

    @staticmethod
    def _ap(f, *args):
        arrs = [np.atleast_1d(np.asarray(a, dtype=float)) for a in args]
        return pd.Series([float(f(*[int(round(float(v))) for v in vs])) for vs in zip(*arrs)])

    def stress(self, load, **kw):
        return self._ap(sig, load)

    def strain(self, stress, load):
        return self._ap(eps, stress, load)

    def stress_secondary_branch(self, delta_load, **kw):
        return self._ap(dsig, delta_load)

    def strain_secondary_branch(self, delta_stress, delta_load):
        return self._ap(deps, delta_stress, delta_load)


COLS = ['loads_min', 'loads_max', 'S_min', 'S_max', 'R', 'epsilon_min', 'epsilon_max', 'S_a', 'S_m', 'epsilon_a',
        'epsilon_m', 'epsilon_min_LF', 'epsilon_max_LF', 'is_closed_hysteresis', 'is_zero_mean_stress_and_strain',
        'run_index']


def _detector(law):
    from pylife.stress.rainflow.fkm_nonlinear import FKMNonlinearDetector
    from pylife.stress.rainflow.recorders import FKMNonlinearRecorder
    rec = FKMNonlinearRecorder()
    return rec, FKMNonlinearDetector(recorder=rec, notch_approximation_law=law)


def impl_run(s, law=None, passes=2):
    """Real detector, single assessment point.  Returns (rows, strain_values, n_first, extra) where rows are dicts over COLS
    (python floats / bools / ints)."""
    rec, d = _detector(law or IntLaw())
    a = np.array(s, dtype=float)
    d.process_hcm_first(a)
    for _ in range(passes - 1):
        d.process_hcm_second(a)
    c = rec.collective
    rows = []
    for i in range(len(c)):
        r = {}
        for k in COLS:
            v = c[k].iloc[i]
            r[k] = v.item() if hasattr(v, 'item') else v
        rows.append(r)
    resid = None   # private state (d._residuals) is deliberately NOT observed: a refactoring may rename it (only public observables are compared)
    return rows, [float(x) for x in d.strain_values], int(len(d.strain_values_first_run)), resid


def impl_run_multi(s, ratios, law=None):
    """Real detector, len(ratios) assessment points whose loads are ratios[j] * s.  Returns per point the row list."""
    n = len(ratios)
    s = np.asarray(s, float)
    idx = pd.MultiIndex.from_product([range(len(s)), range(n)], names=['load_step', 'node_id'])
    ls = pd.Series(np.outer(s, ratios).ravel(), index=idx)
    rec, d = _detector(law or IntLaw())
    d.process_hcm_first(ls)
    d.process_hcm_second(ls)
    c = rec.collective
    out = []
    for j in range(n):
        cj = c[c.index.get_level_values('assessment_point_index') == j]
        rows = []
        for i in range(len(cj)):
            r = {}
            for k in COLS:
                v = cj[k].iloc[i]
                r[k] = v.item() if hasattr(v, 'item') else v
            rows.append(r)
        out.append(rows)
    return out, [float(x) for x in d.strain_values], int(len(d.strain_values_first_run))


def load_rows(rows):
    """(min, max, closed, run) of every recorded hysteresis, as integers."""
    return [(int(r['loads_min']), int(r['loads_max']), bool(r['is_closed_hysteresis']), int(r['run_index'])) for r in rows]


# --------------------------------------------------------------------------- parallel evaluation of the implementation
def _safe(f, a):
    try:
        return ('ok', f(*a))
    except Exception as e:   # noqa
        return ('exc', '%s: %s' % (type(e).__name__, str(e)[:300]))


def _w_single(s):
    return _safe(impl_run, (s,))


def _w_single3(s):
    return _safe(impl_run, (s, None, 3))


def _w_multi(a):
    return _safe(impl_run_multi, a)


def pmap(worker, items, chunksize=8):
    """Evaluate the real detector on many inputs in forked workers (the detector is pandas-bound, ~60 sequences/s/core)."""
    items = list(items)
    if len(items) < 32:
        return [worker(x) for x in items]
    import multiprocessing as mp
    with ProcessPoolExecutor(max_workers=common.NCPU, mp_context=mp.get_context('fork')) as ex:
        return list(ex.map(worker, items, chunksize=chunksize))


# --------------------------------------------------------------------------- search oracle (tied to HCM/Periodic.v each run)
def find_turns(s):
    out = []
    if not s:
        return out
    p, d, c = s[0], 0, 0
    for i, x in enumerate(s[1:], 1):
        if x == p:
            continue
        e = sgn(x - p)
        if d != 0 and e != d:
            out.append((c, p))
        p, d, c = x, e, i
    return out


def periodic_reversals(s):
    t = [s[0]]
    for x in s[1:]:
        if x != t[-1]:
            t.append(x)
    while len(t) > 1 and t[0] == t[-1]:
        t.pop()
    n = len(t)
    if n < 2:
        return []
    return [t[i] for i in range(n) if (t[i] - t[i - 1]) * (t[(i + 1) % n] - t[i]) < 0]


def fourpoint_spec(turns):
    stk, out = [], []
    for d in turns:
        while len(stk) >= 3:
            a, b, c = stk[-3:]
            if abs(b - c) <= abs(a - b) and abs(b - c) <= abs(c - d):
                out.append((min(b, c), max(b, c)))
                stk = stk[:-3] + [a]
            else:
                break
        stk.append(d)
    return out, stk


def steady_cycles(s):
    """Closed cycles of the endlessly repeated sequence: four-point rainflow of one period of the periodic reversal
    sequence rotated to its first largest |load| and closed with that value; sorted list of (min, max)."""
    r = periodic_reversals(list(s))
    if not r:
        return []
    m = max(range(len(r)), key=lambda i: (abs(r[i]), -i))
    rr = r[m:] + r[:m] + [r[m]]
    out, stk = fourpoint_spec(rr)
    if len(stk) == 3:
        out.append((min(stk[0], stk[1]), max(stk[0], stk[1])))
    elif len(stk) != 1:
        out.append(('STK',) + tuple(stk))
    return sorted(out)


def z_class(s):
    s0 = [0] + list(s)
    return (len(s0) - 1) in [i for i, _ in find_turns(s0 + s0)]


def p_class(s):
    s0 = [0] + list(s)
    return (len(s0) - 1) in [i for i, _ in find_turns(s0 + list(s))]


def in_class(s):
    return z_class(s) and p_class(s)


def c04_relation(s, rows):
    """The property C04 evaluated on what the implementation recorded for s.  Returns None or a description."""
    lr = load_rows(rows)
    p2 = [r for r in lr if r[3] == 2]
    if any(r[3] not in (1, 2) for r in lr):
        return 'run_index outside {1,2}'
    for r in lr:
        if not r[2]:
            if r[3] != 1:
                return 'half-counted (Memory 3) hysteresis recorded in pass 2'
            if r[0] != -r[1]:
                return 'half-counted (Memory 3) hysteresis not symmetric about zero'
    got = sorted((a, b) for a, b, _, _ in p2)
    want = steady_cycles(s)
    if got != want:
        return 'pass-2 hystereses differ from the steady-state cycles of the repeated sequence'
    return None


# --------------------------------------------------------------------------- Coq literals
def blit(b):
    return 'true' if b else 'false'


def zl(v):
    f = float(v)
    if f != int(f):
        raise ValueError('non-integer value %r in an exact comparison' % (v,))
    return zlit(int(f))


def load_obs_lit(rows):
    return '[' + '; '.join('(%s, %s, %s, %s)' % (zl(a), zl(b), blit(c), nlit(r)) for a, b, c, r in load_rows(rows)) + ']'


def pairs_lit(ps):
    return '[' + '; '.join('(%s, %s)' % (zlit(a), zlit(b)) for a, b in ps) + ']'


# --------------------------------------------------------------------------- generators
def all_seqs(alphabet, maxlen, minlen=2):
    for n in range(minlen, maxlen + 1):
        for s in itertools.product(alphabet, repeat=n):
            if len(set(s)) >= 2:
                yield list(s)


def random_seq(rng, maxlen=40):
    """Random load sequence with >= 2 distinct values; structured: small alphabets (ties), plateaus, intermediate points,
    repeated extremes, deep nesting (shrinking / growing envelopes)."""
    while True:
        n = rng.randint(2, maxlen)
        k = rng.choice([2, 3, 3, 6, 6, 12, 20, 40])
        r = rng.random()
        if r < 0.15:       # nested: alternating with decreasing then increasing amplitude
            amp = sorted({rng.randint(1, k) for _ in range(rng.randint(2, 9))}, reverse=True)
            s = []
            for i, a in enumerate(amp):
                s += [a, -a + rng.choice([0, 0, 1])]
            if rng.random() < 0.5:
                s += s[::-1]
            off = rng.randint(-2, 2)
            s = [x + off for x in s]
        else:
            s = [rng.randint(-k, k) for _ in range(n)]
        r = rng.random()
        if r < 0.25:       # plateaus
            t = []
            for x in s:
                t += [x] * rng.choice([1, 1, 2, 3])
            s = t
        elif r < 0.45:     # intermediate points
            t = [s[0]]
            for x in s[1:]:
                a = t[-1]
                st = rng.randint(0, 2)
                for j in range(1, st + 1):
                    t.append(a + (x - a) * j // (st + 1))
                t.append(x)
            s = t
        elif r < 0.55:     # repeated extremes
            m = max(s, key=abs)
            for _ in range(2):
                s.insert(rng.randint(0, len(s)), rng.choice([m, -m]))
        if len(set(s)) >= 2:
            return s


def force_junction(rng, s):
    """Rewrite the ends of s into one of the junction configurations the property names."""
    s = list(s)
    kind = rng.randint(0, 6)
    if kind == 0 and s[0] != 0:      # last sample between zero and the first sample
        lo, hi = sorted((0, s[0]))
        s.append(rng.randint(lo, hi))
    elif kind == 1:                  # trailing plateau
        s += [s[-1]] * rng.randint(1, 3)
    elif kind == 2:                  # leading plateau
        s = [s[0]] * rng.randint(1, 3) + s
    elif kind == 3:                  # last sample passes an older reversal (non-reversal end)
        d = s[-1] - s[-2] if len(s) > 1 else 1
        s.append(s[-1] + sgn(d) * rng.randint(1, 5))
    elif kind == 4:                  # ends at zero / starts at zero
        if rng.random() < 0.5:
            s.append(0)
        else:
            s = [0] + s
    elif kind == 5:                  # last equals first
        s.append(s[0])
    return s if len(set(s)) >= 2 else s + [s[-1] + 1]


def make_in_class(rng, s):
    """Turn s into a sequence of the junction class z and p by appending a sample (tries a few)."""
    s = list(s)
    if in_class(s):
        return s
    for _ in range(12):
        t = s + [rng.randint(-abs(max(s, key=abs)) - 1, abs(max(s, key=abs)) + 1)]
        if in_class(t):
            return t
    return None


# --------------------------------------------------------------------------- correspondence terms
def c04_term(s, rows, residuals, passes=2):
    if residuals is None:
        return 'load_recs_eqb (load_obs %s %s) %s' % (nlit(passes - 1), coq_list(s), load_obs_lit(rows))
    return 'load_obs_eqb (load_obs %s %s) %s %s' % (nlit(passes - 1), coq_list(s), load_obs_lit(rows), coq_list([int(x) for x in residuals]))


def spec_term(s):
    sc = steady_cycles(s)
    if any(len(x) != 2 for x in sc):
        lit = 'false'
    else:
        lit = 'opt_pairs_eqb (option_map sort_pairs (steady_cycles %s)) %s' % (coq_list(s), pairs_lit(sc))
    return '%s && Bool.eqb (z_class %s) %s && Bool.eqb (p_class %s) %s' % (lit, coq_list(s), blit(z_class(s)), coq_list(s), blit(p_class(s)))


def qexact(v):
    return common.qlit(float(v))


def zrow_lit(r, scale=1):
    R = r['R']
    rl = 'Some %s' % qexact(R) if np.isfinite(R) else 'None'
    return '(%s, %s, %s, %s, %s, %s, %s, %s, %s, %s, %s, (%s, %s, %s, %s, %s))' % (
        zl(r['loads_min']), zl(r['loads_max']), zl(r['S_min']), zl(r['S_max']), zl(r['epsilon_min']), zl(r['epsilon_max']),
        zl(r['epsilon_min_LF']), zl(r['epsilon_max_LF']), blit(r['is_closed_hysteresis']), blit(r['is_zero_mean_stress_and_strain']),
        nlit(r['run_index']), qexact(r['S_a']), qexact(r['S_m']), qexact(r['epsilon_a']), qexact(r['epsilon_m']), rl)


def c05_term(s, rows, strains, nfirst):
    return 'zobs_eqb (zobs %s) [%s] %s %s' % (coq_list(s), '; '.join(zrow_lit(r) for r in rows), coq_list(strains, zl), nlit(nfirst))


def c05_multi_term(s, c0, cs, per_point_rows, strains, nfirst):
    rows = '[' + '; '.join('[' + '; '.join(zrow_lit(r) for r in rows) + ']' for rows in per_point_rows) + ']'
    return 'mobs_eqb (mobs %s %s %s) %s %s %s' % (zlit(c0), coq_list(cs), coq_list(s), rows, coq_list(strains, zl), nlit(nfirst))


# --------------------------------------------------------------------------- real notch approximation laws, tabulated
class RecordingLaw:
    """Wraps a real (binned) notch approximation law and records every value it returns, keyed by the (integer) load /
    load difference of the first assessment point.  The Gallina model is then run with these tables as its law
    (HCM/Full.v: qtrace), i.e. 'evaluated with the same law'."""

    def __init__(self, law):
        self._law = law
        self.tables = {'sig': {}, 'eps': {}, 'dsig': {}, 'deps': {}}

    @property
    def ramberg_osgood_relation(self):
        return self._law.ramberg_osgood_relation

    @staticmethod
    def _key(x):
        v = float(np.asarray(x, dtype=float).ravel()[0])
        if v != int(v):
            raise ValueError('non-integer load %r' % v)
        return int(v)

    def _rec(self, name, key, out):
        v = float(np.asarray(out, dtype=float).ravel()[0])
        old = self.tables[name].get(key)
        if old is not None and old != v:
            raise ValueError('law is not a function of the load: %s(%s) = %r and %r' % (name, key, old, v))
        self.tables[name][key] = v
        return out

    def stress(self, load, **kw):
        return self._rec('sig', self._key(load), self._law.stress(load, **kw))

    def strain(self, stress, load):
        return self._rec('eps', self._key(load), self._law.strain(stress, load))

    def stress_secondary_branch(self, delta_load, **kw):
        return self._rec('dsig', self._key(delta_load), self._law.stress_secondary_branch(delta_load, **kw))

    def strain_secondary_branch(self, delta_stress, delta_load):
        return self._rec('deps', self._key(delta_load), self._law.strain_secondary_branch(delta_stress, delta_load))


def real_law(kind, max_load, bins=100):
    import pylife.materiallaws.notch_approximation_law as NL
    if kind == 'neuber':
        base = NL.ExtendedNeuber(E=206e3, K=1184.0, n=0.187, K_p=3.5)
    else:
        from pylife.materiallaws.notch_approximation_law_seegerbeste import SeegerBeste
        base = SeegerBeste(E=206e3, K=1184.0, n=0.187, K_p=3.5)
    return NL.Binned(base, float(max_load), bins)


def impl_run_real(s, kind):
    law = RecordingLaw(real_law(kind, max(abs(x) for x in s)))
    rows, sv, nf, _ = impl_run(s, law)
    return rows, sv, nf, law.tables


def _w_real(a):
    return _safe(impl_run_real, a)


def _w_real_pair(a):
    s, kind = a
    return _safe(lambda: (impl_run_real(s, kind)[:3], impl_run_real([-x for x in s], kind)[:3]), ())


def _w_pair(s):
    return _safe(lambda: (impl_run(s)[:3], impl_run([-x for x in s])[:3]), ())


def qtab(t):
    return '[' + '; '.join('(%s, %s)' % (zlit(k), common.qlit(v)) for k, v in sorted(t.items())) + ']'


def qrow_lit(r):
    q = common.qlit
    return '(%s, %s, %s, %s, %s, %s, %s, %s, %s, %s, %s)' % (
        zl(r['loads_min']), zl(r['loads_max']), q(r['S_min']), q(r['S_max']), q(r['epsilon_min']), q(r['epsilon_max']),
        q(r['epsilon_min_LF']), q(r['epsilon_max_LF']), blit(r['is_closed_hysteresis']), blit(r['is_zero_mean_stress_and_strain']),
        nlit(r['run_index']))


def c05_real_term(s, rows, strains, nfirst, tables):
    return 'qobs_eqb (1 # 1000000000000) (qobs %s %s %s %s %s) [%s] [%s] %s' % (
        qtab(tables['sig']), qtab(tables['eps']), qtab(tables['dsig']), qtab(tables['deps']), coq_list(s),
        '; '.join(qrow_lit(r) for r in rows), '; '.join(common.qlit(v) for v in strains), nlit(nfirst))


MIRROR_COLS = [('S_min', 'S_max'), ('epsilon_min', 'epsilon_max'), ('loads_min', 'loads_max')]


def mirror_relation(s, a, b, exact=True):
    """Rows/strains of s (a) against those of -s (b).  Returns None or a description.  The running strain extremes are
    compared only when no sample is 0 (then no processed load equals previous_load, the proviso of theorem `mirror`)."""
    (ra, sa, na), (rb, sb, nb) = a, b
    eq = (lambda x, y: x == y) if exact else (lambda x, y: abs(x - y) <= 1e-9 * (1 + abs(y)))
    if len(ra) != len(rb):
        return 'number of recorded hystereses differs under negation'
    for x, y in zip(ra, rb):
        for lo, hi in MIRROR_COLS:
            if not (eq(x[lo], -y[hi]) and eq(x[hi], -y[lo])):
                return '%s/%s not mirrored' % (lo, hi)
        for k in ('S_a', 'epsilon_a'):
            if not eq(x[k], y[k]):
                return k + ' changes under negation'
        for k in ('S_m', 'epsilon_m'):
            if not eq(x[k], -y[k]):
                return k + ' not mirrored'
        for k in ('is_closed_hysteresis', 'is_zero_mean_stress_and_strain', 'run_index'):
            if x[k] != y[k]:
                return k + ' changes under negation'
        if 0 not in s:
            if not (eq(x['epsilon_min_LF'], -y['epsilon_max_LF']) and eq(x['epsilon_max_LF'], -y['epsilon_min_LF'])):
                return 'running strain extremes not mirrored'
    if len(sa) != len(sb) or not all(eq(u, -v) for u, v in zip(sa, sb)) or na != nb:
        return 'strain_values not mirrored'
    return None


# --------------------------------------------------------------------------- near-tie float inputs (C04, added after seeded change C04-2)
# The detector compares loads with an absolute tolerance of 1e-12 (five sites in fkm_nonlinear.py).  Inputs on an integer grid never
# come near those tolerances.  The functions below turn an integer LEVEL sequence s into a FLOAT load sequence f with
#     f_i = sign(s_i) * (fl(|s_i| * c) moved by k_i ulps),        |f_i - c * s_i| <= d   (d is measured exactly, in rationals),
# where different occurrences of the same level get different k_i: loads that are equal only up to float rounding (0.3 vs 0.1 + 0.2).
# One k per run of equal consecutive levels (cyclically: the last run continues in the first one when s[-1] == s[0]) and level 0 stays
# exactly 0, so that every step of 0, f, f has the sign of the corresponding level step: f has the same turning points, the same junction
# class and -- up to the perturbation -- the same periodic reversals as s.  With 4 d + (float rounding of the code's own differences)
# < 1e-12 << c every tolerant comparison of the code decides like the exact comparison of the levels
# (coq/theories/HCM/Tol.v: tolerant_gt_is_level_gt / tolerant_lt_is_level_lt), so the detector has to record for f the hystereses it
# records for s, with loads within d of c * level.
TOL = 1e-12
NT_SCALES = [0.1, 0.1, 0.7, 0.3, 1.0 / 3.0, 1e-3, 0.01, 1.1, 2.5, 7.3, 1.0]
NT_MODES = ['random', 'growing', 'shrinking', 'late-extreme']


class ScaledLaw(IntLaw):
    """IntLaw on the levels of loads given in units of c (the law values stay integers, nothing else depends on rounding)."""

    def __init__(self, c):
        self.c = float(c)

    def _ap(self, f, *args):
        arrs = [np.atleast_1d(np.asarray(a, dtype=float)) for a in args]
        return pd.Series([float(f(*[int(round(float(v) / self.c)) for v in vs])) for vs in zip(*arrs)])


def _ulps(x, k):
    for _ in range(abs(k)):
        x = float(np.nextafter(x, np.inf if k > 0 else 0.0))
    return x


def nt_runs(s):
    """Run id of every sample: consecutive equal levels form a run; the last run joins the first one when s[-1] == s[0]."""
    ids, r = [], 0
    for i, x in enumerate(s):
        if i and x != s[i - 1]:
            r += 1
        ids.append(r)
    if len(s) > 1 and s[-1] == s[0] and ids[-1] != 0:
        last = ids[-1]
        ids = [0 if j == last else j for j in ids]
    return ids


def nt_valid(s, f):
    """f is an admissible perturbation of the levels s: equal neighbours (also across the junction of two passes) stay equal,
    unequal neighbours keep their order, zeros stay zero."""
    n = len(s)
    if len(f) != n:
        return False
    for i in range(n):
        a, b, fa, fb = s[i - 1], s[i], f[i - 1], f[i]       # i = 0: the junction last -> first
        if (a == b and fa != fb) or (a < b and not fa < fb) or (a > b and not fa > fb):
            return False
        if (b == 0) != (fb == 0.0) or (b > 0) != (fb > 0):
            return False
    return True


def nt_budget(s, f, c):
    """Exact check that the perturbation stays far enough below the code's tolerance (see the comment above); returns d or None."""
    from fractions import Fraction
    d = max(abs(Fraction(x) - Fraction(c) * v) for x, v in zip(f, s))
    m = max(abs(x) for x in f)
    r = Fraction(m) / 2 ** 51             # generous bound for the float rounding of one difference / one `x +- 1e-12` of such loads
    if 4 * d + 4 * r > Fraction(9, 10 ** 13) or Fraction(c) < Fraction(1, 10 ** 9):
        return None
    return float(d)


def perturb(rng, s, c, mode):
    """Float loads for the level sequence s (see above); None when the error budget cannot be met for this scale."""
    ids = nt_runs(s)
    for kmax in (2, 1):
        ks, seen = {}, {}
        for i, x in enumerate(s):
            rid = ids[i]
            if rid in ks:
                continue
            j = seen.get(abs(x), 0)              # how many runs of this |level| came before
            seen[abs(x)] = j + 1
            if mode == 'growing':
                k = min(j, 2 * kmax) - kmax
            elif mode == 'shrinking':
                k = kmax - min(j, 2 * kmax)
            elif mode == 'late-extreme':         # only the largest |level| is perturbed, later occurrences slightly larger
                k = (min(j, 2 * kmax) - kmax) if abs(x) == max(abs(y) for y in s) else 0
            else:
                k = rng.randint(-kmax, kmax)
            ks[rid] = k
        f = []
        for i, x in enumerate(s):
            a = _ulps(abs(x) * float(c), ks[ids[i]]) if x else 0.0
            f.append(a if x >= 0 else -a)
        if nt_valid(s, f) and nt_budget(s, f, c) is not None:
            return f
    return None


def snap_rows(rows, c):
    """Rows with loads_min / loads_max replaced by their levels (nearest multiple of c); ValueError when a recorded load is not
    within the tolerance of a multiple of c (then it is not a load of the sequence)."""
    out = []
    for r in rows:
        q = dict(r)
        for k in ('loads_min', 'loads_max'):
            lv = int(round(float(r[k]) / c))
            if abs(float(r[k]) - lv * c) > TOL:
                raise ValueError('recorded %s = %r is not a load of the sequence (scale %r)' % (k, r[k], c))
            q[k] = lv
        out.append(q)
    return out


def exact_steady_levels(f, c):
    """steady_cycles of the float sequence itself, evaluated in exact rational arithmetic, snapped to levels."""
    from fractions import Fraction
    sc = steady_cycles([Fraction(x) for x in f])
    out = []
    for t in sc:
        if len(t) != 2:
            return None
        out.append(tuple(int(round(float(v) / c)) for v in t))
    return sorted(out)


def impl_run_scaled(f, c, passes=2):
    return impl_run(f, ScaledLaw(c), passes)


def _w_scaled(a):
    return _safe(impl_run_scaled, a)


def c04_relation_nt(s, f, c, rows):
    """C04 on what the implementation recorded for the float loads f (levels s, scale c)."""
    try:
        return c04_relation(s, snap_rows(rows, c))
    except ValueError as e:
        return str(e)
# =========================================================================== C05 strengthening (additive)
# index layouts of the multi-point input, chunked feeding through process(chunk, flush), real binned laws for several
# assessment points.  Nothing above this line was changed.
REQ_C05 = ['From PL Require Import Rainflow.Model HCM.Model HCM.Load HCM.Periodic HCM.Select HCM.Full HCM.Chunks HCM.Eqb.', 'Open Scope Z_scope.']


def _rows(c, n=None):
    """collective -> list of row dicts (n = None: single point) / list per assessment point."""
    def rows_of(cj):
        out = []
        for i in range(len(cj)):
            r = {}
            for k in COLS:
                v = cj[k].iloc[i]
                r[k] = v.item() if hasattr(v, 'item') else v
            out.append(r)
        return out
    if n is None:
        return rows_of(c)
    ap = c.index.get_level_values('assessment_point_index')
    return [rows_of(c[ap == j]) for j in range(n)]


def multi_series(s, ratios, labels=None):
    """Series with (load_step, node_id) MultiIndex: node j carries ratios[j] * s; labels = the load_step labels in row order."""
    labels = list(range(len(s))) if labels is None else list(labels)
    idx = pd.MultiIndex.from_product([labels, range(len(ratios))], names=['load_step', 'node_id'])
    return pd.Series(np.outer(np.asarray(s, float), np.asarray(ratios, float)).ravel(), index=idx)


def label_layout(rng, n):
    """load_step labels of n samples: unique non-negative integers; the row order defines the sequence, not the labels."""
    kind = rng.choice(['ascending', 'ascending', 'gaps', 'shuffled', 'shuffled', 'descending', 'offset'])
    if kind == 'ascending':
        return kind, list(range(n))
    if kind == 'gaps':
        return kind, sorted(rng.sample(range(0, 4 * n + 2), n))
    if kind == 'shuffled':
        return kind, rng.sample(range(0, 3 * n + 2), n)
    if kind == 'descending':
        return kind, list(range(n - 1, -1, -1))
    off = rng.randint(1, 50)
    return kind, list(range(off, off + n))


def impl_run_multi_labels(s, ratios, labels, law=None):
    """As impl_run_multi, with the given load_step labels."""
    ls = multi_series(s, ratios, labels)
    rec, d = _detector(law or IntLaw())
    d.process_hcm_first(ls)
    d.process_hcm_second(ls)
    return _rows(rec.collective, len(ratios)), [float(x) for x in d.strain_values], int(len(d.strain_values_first_run))


def impl_run_chunks(chunks, flushes, ratios=None, law=None):
    """process(chunk_1, flush_1) ... process(chunk_k, flush_k) on a fresh detector.  ratios = None: single point (arrays);
    otherwise a multi-point Series per chunk with consecutive load_step labels starting at 0."""
    rec, d = _detector(law or IntLaw())
    k = 0
    for ch, fl in zip(chunks, flushes):
        if ratios is None:
            d.process(np.asarray(ch, dtype=float), flush=bool(fl))
        else:
            d.process(multi_series(ch, ratios, range(k, k + len(ch))), flush=bool(fl))
        k += len(ch)
    return (_rows(rec.collective, None if ratios is None else len(ratios)), [float(x) for x in d.strain_values],
            int(len(d.strain_values_first_run)))


def _w_multi_labels(a):
    return _safe(impl_run_multi_labels, a)


def _w_chunks(a):
    return _safe(impl_run_chunks, a)


def delivered_turns(chunks, flushes):
    """Search-side oracle of AbstractDetector._new_turns (the model is Rainflow.Model.new_turns, tied by C01 and by the chunk
    correspondence of C05): global sample indices of the turning points handed to the HCM loop in every call."""
    seq, out, done = [], [], set()
    for ch, fl in zip(chunks, flushes):
        seq = seq + list(ch)
        t = [i for i, _ in find_turns(seq)]
        new = [i for i in t if i not in done]
        if fl and seq:
            # flush: the last sample is processed as well (position of the start of a trailing plateau)
            j = len(seq) - 1
            while j > 0 and seq[j - 1] == seq[j]:
                j -= 1
            if j not in done and j not in new and (len(seq) > 0):
                new.append(j)
        done.update(new)
        out.append(sorted(new))
    return out


def chunk_domain(chunks, flushes):
    """Chunkings on which the multi-point path of the UNCHANGED detector is meaningful (see notes/build/C05.md, Observations):
    the turning point carried over from the previous call is the LAST sample of that call (no trailing plateau), and it is
    not followed directly by the flushed last sample of the current chunk (both would get the same load_step label).
    Returns None if inside the domain, else the reason."""
    start = 0
    seq = [x for ch in chunks for x in ch]
    for k, (ch, T) in enumerate(zip(chunks, delivered_turns(chunks, flushes))):
        end = start + len(ch) - 1
        if len(ch) == 0:
            return 'empty chunk'
        if T and T[0] < start - 1:
            return 'carried-over turning point is not the last sample of the previous chunk'
        if T and T[0] == start - 1 and len(T) >= 2 and len(set(seq[T[1]:end + 1])) == 1:
            return 'carried-over turning point directly followed by the (flushed) last sample of the chunk'
        start = end + 1
    return None


def chunk_lit(chunks, flushes):
    return '[' + '; '.join('(%s, %s)' % (coq_list(ch), blit(fl)) for ch, fl in zip(chunks, flushes)) + ']'


def c05_multi_term_v(pwc, pwl, s, c0, cs, per_point_rows, strains, nfirst):
    rows = '[' + '; '.join('[' + '; '.join(zrow_lit(r) for r in rows) + ']' for rows in per_point_rows) + ']'
    return 'mobs_eqb (mobs_v %s %s %s %s %s) %s %s %s' % (zlit(c0), coq_list(cs), blit(pwc), blit(pwl), coq_list(s), rows,
                                                         coq_list(strains, zl), nlit(nfirst))


def c05_chunk_term(chunks, flushes, rows, strains, nfirst):
    return 'zobs_eqb (zcobs %s) [%s] %s %s' % (chunk_lit(chunks, flushes), '; '.join(zrow_lit(r) for r in rows), coq_list(strains, zl), nlit(nfirst))


def c05_chunk_multi_term(pwc, pwl, chunks, flushes, cs, per_point_rows, strains, nfirst):
    rows = '[' + '; '.join('[' + '; '.join(zrow_lit(r) for r in rows) + ']' for rows in per_point_rows) + ']'
    return 'mobs_eqb (mcobs %s %s 1 %s %s) %s %s %s' % (blit(pwc), blit(pwl), coq_list(cs), chunk_lit(chunks, flushes), rows,
                                                       coq_list(strains, zl), nlit(nfirst))


# ----- real binned laws, several assessment points (implementation-side relation batch = single)
def real_base(kind):
    import pylife.materiallaws.notch_approximation_law as NL
    if kind == 'neuber':
        return NL.ExtendedNeuber(E=206e3, K=1184.0, n=0.187, K_p=3.5)
    from pylife.materiallaws.notch_approximation_law_seegerbeste import SeegerBeste
    return SeegerBeste(E=206e3, K=1184.0, n=0.187, K_p=3.5)


def impl_run_real_batch(s, ratios, kind, bins=100):
    """Binned(law) built for all points at once (per-point maximum load), process_hcm_first/second on the MultiIndex Series."""
    import pylife.materiallaws.notch_approximation_law as NL
    m = float(max(abs(x) for x in s))
    mx = pd.Series([m * float(r) for r in ratios], index=pd.Index(range(len(ratios)), name='node_id'))
    law = NL.Binned(real_base(kind), mx, bins)
    ls = multi_series(s, ratios)
    rec, d = _detector(law)
    d.process_hcm_first(ls)
    d.process_hcm_second(ls)
    return _rows(rec.collective, len(ratios)), [float(x) for x in d.strain_values], int(len(d.strain_values_first_run))


def impl_run_real_alone(s, ratio, kind, bins=100):
    import pylife.materiallaws.notch_approximation_law as NL
    m = float(max(abs(x) for x in s))
    law = NL.Binned(real_base(kind), m * float(ratio), bins)
    a = np.asarray(s, float) * float(ratio)
    rec, d = _detector(law)
    d.process_hcm_first(a)
    d.process_hcm_second(a)
    return _rows(rec.collective), [float(x) for x in d.strain_values], int(len(d.strain_values_first_run))


def _w_real_batch(a):
    s, ratios, kind = a
    return _safe(lambda: (impl_run_real_batch(s, ratios, kind), [impl_run_real_alone(s, r, kind) for r in ratios]), ())


VALUE_COLS = ['loads_min', 'loads_max', 'S_min', 'S_max', 'R', 'epsilon_min', 'epsilon_max', 'S_a', 'S_m', 'epsilon_a', 'epsilon_m',
              'epsilon_min_LF', 'epsilon_max_LF']
FLAG_COLS = ['is_closed_hysteresis', 'is_zero_mean_stress_and_strain', 'run_index']
SWAP_GROUP = {'S_min', 'S_max', 'epsilon_min', 'epsilon_max', 'S_a', 'epsilon_a', 'R'}
LF_GROUP = {'epsilon_min_LF', 'epsilon_max_LF'}


def _close(x, y, rtol):
    if x == y:
        return True
    if not (np.isfinite(x) and np.isfinite(y)):
        return bool(np.isnan(x) and np.isnan(y))
    return abs(x - y) <= rtol * (abs(x) + abs(y)) / 2 + 1e-300


S_FAMILY = ('S_min', 'S_max', 'S_a', 'S_m')
E_FAMILY = ('epsilon_min', 'epsilon_max', 'epsilon_a', 'epsilon_m', 'epsilon_min_LF', 'epsilon_max_LF')


def rows_diff(batch_rows, alone_rows, rtol=0.0):
    """Columns in which the rows of a point in the batch differ from its single-point run: None if the row counts differ,
    else the list of (row index, column).  rtol = 0: exact (injected integer law).  rtol > 0 (real laws, float noise): stresses
    and strains are sums of law values of both signs, so their rounding error is relative to the largest stress / strain of
    the run, not to the (possibly cancelling) entry: |x - y| <= rtol * max|S| resp. max|epsilon| over the point's rows;
    R = S_min / S_max with the propagated bound."""
    if len(batch_rows) != len(alone_rows):
        return None
    out = []
    if rtol > 0:
        sS = max([abs(float(r[k])) for r in alone_rows for k in ('S_min', 'S_max')] + [1e-300])
        sE = max([abs(float(r[k])) for r in alone_rows for k in ('epsilon_min', 'epsilon_max', 'epsilon_min_LF', 'epsilon_max_LF')] + [1e-300])
    for i, (x, y) in enumerate(zip(batch_rows, alone_rows)):
        for k in VALUE_COLS:
            a, b = float(x[k]), float(y[k])
            if a == b or (np.isnan(a) and np.isnan(b)):
                continue
            if rtol == 0 or not (np.isfinite(a) and np.isfinite(b)):
                out.append((i, k))
            elif k in S_FAMILY:
                if abs(a - b) > rtol * sS:
                    out.append((i, k))
            elif k in E_FAMILY:
                if abs(a - b) > rtol * sE:
                    out.append((i, k))
            elif k == 'R':
                den = max(abs(float(y['S_max'])), 1e-300)
                if abs(a - b) > rtol * sS * (1 + abs(b)) / den:
                    out.append((i, k))
            elif abs(a - b) > rtol * max(abs(a), abs(b)):
                out.append((i, k))
        for k in FLAG_COLS:
            if x[k] != y[k]:
                out.append((i, k))
    return out


def explain_batch_diff(batch_rows, alone_rows, alone_strains, diffs, rtol=0.0):
    """Observational diagnosis of a batch/single difference of one point (used by the class predicates of the two findings):
    'swap'  : in every differing row outside the *_LF columns the batch has min and max of stress and/or strain EXCHANGED
              with respect to the single-point run (exchanging them back restores the row exactly);
    'lf'    : every differing running extreme of the batch is 0 or one of the point's own visited strains, and is less extreme
              than the single-point value (an update was lost / taken although the point had a more extreme value).
    Returns the set of explanations that account for ALL differences, or set() when something else differs."""
    kinds = set()
    rows_bad = sorted({i for i, _ in diffs})
    for i in rows_bad:
        cols = {k for r, k in diffs if r == i}
        x, y = batch_rows[i], alone_rows[i]
        rest = cols - LF_GROUP
        if rest:
            if not rest <= SWAP_GROUP:
                return set()
            ok = True
            for lo, hi in (('S_min', 'S_max'), ('epsilon_min', 'epsilon_max')):
                same = _close(x[lo], y[lo], rtol) and _close(x[hi], y[hi], rtol)
                swapped = _close(x[lo], y[hi], rtol) and _close(x[hi], y[lo], rtol)
                if not (same or swapped):
                    ok = False
            # derived columns must be those of the exchanged pair: amplitudes change sign, means stay (not in SWAP_GROUP)
            if not ok or not (_close(abs(x['S_a']), abs(y['S_a']), max(rtol, 1e-12)) and _close(abs(x['epsilon_a']), abs(y['epsilon_a']), max(rtol, 1e-12))):
                return set()
            kinds.add('swap')
        lf = cols & LF_GROUP
        if lf:
            own = [0.0] + list(alone_strains)
            for k in lf:
                v = float(x[k])
                if not any(_close(v, o, max(rtol, 1e-12)) for o in own):
                    return set()
                if k == 'epsilon_min_LF' and not v >= float(y[k]):
                    return set()
                if k == 'epsilon_max_LF' and not v <= float(y[k]):
                    return set()
            kinds.add('lf')
    return kinds


# =========================================================================== C04 round 2 (additive): dwells and long runs
# Seeded change C04-3 truncates AbstractDetector._sample_tail to the last 8 samples: a trailing plateau (dwell) of >= 8 equal
# samples that is a reversal of the repeated sequence is then forgotten at the start of pass 2.  The generators above use plateaus
# of length <= 4.  The functions below add the input dimension "number of consecutive samples without a turning point":
# long plateaus and long (non-strictly) monotone runs at the end, at the start and in the interior of the block.
DWELL_LENGTHS = [3, 4, 5, 6, 7, 8, 8, 9, 10, 12, 16, 24, 33, 50, 64, 100, 130]      # total length of the plateau / run


def strip_trailing_run(b):
    """b without the repetitions of its last value (keeps one occurrence)."""
    b = list(b)
    while len(b) > 1 and b[-2] == b[-1]:
        b.pop()
    return b


def dwell_pair(b, L):
    """(reference, dwell): the block b ending in a plateau of exactly 2 resp. L >= 3 samples of its last value.  Both have the
    same samples up to repetition of the last one; in both the last sample is NOT the first sample of its plateau, so
    process_hcm_first defers the plateau in both (theorem dwell_insensitive: the model records the same for both)."""
    b = strip_trailing_run(b)
    return b + [b[-1]], b + [b[-1]] * (L - 1)


def dwell_is_periodic_reversal(s):
    """The trailing plateau of s is a reversal of the endlessly repeated sequence (direction into it != direction out of it)."""
    b = strip_trailing_run(s)
    v = b[-1]
    before = [x for x in reversed(b[:-1]) if x != v][:1]
    after = [x for x in b if x != v][:1]
    return bool(before and after and (v - before[0]) * (after[0] - v) < 0)


def monotone_run(rng, a, c, m):
    """m samples moving (non-strictly) monotonically from a to c, both excluded as far as the values allow (repeats allowed)."""
    lo, hi = sorted((a, c))
    vals = sorted(rng.randint(lo, hi) for _ in range(m))
    return vals if a <= c else vals[::-1]


def dwell_variants(rng, b):
    """[(kind, sequence)]: b with a long stretch of samples that contains no turning point, at various places."""
    b = list(b)
    out = []
    L = rng.choice(DWELL_LENGTHS)
    out.append(('leading-plateau', [b[0]] * (L - 1) + b))
    i = rng.randrange(len(b))
    out.append(('interior-plateau', b[:i + 1] + [b[i]] * (L - 1) + b[i + 1:]))
    if len(b) >= 2:
        i = rng.randrange(len(b) - 1)
        out.append(('interior-monotone-run', b[:i + 1] + monotone_run(rng, b[i], b[i + 1], L) + b[i + 1:]))
    # the block ends with a long monotone run (the last sample is approached over many samples), optionally followed by a dwell
    t = b[-1] + rng.choice([-1, 1]) * rng.randint(1, 6)
    run = monotone_run(rng, b[-1], t, L) + [t]
    out.append(('trailing-monotone-run', b + run))
    out.append(('trailing-run-then-plateau', b + run + [t] * (rng.choice(DWELL_LENGTHS) - 1)))
    # dwell that is reached through an intermediate point (the sample before the plateau is no reversal)
    if len(b) >= 2 and abs(b[-1] - b[-2]) >= 2:
        lo, hi = sorted((b[-2], b[-1]))
        out.append(('intermediate-then-plateau', b[:-1] + [rng.randint(lo + 1, hi - 1)] + [b[-1]] * L))
    return [(k, s) for k, s in out if len(set(s)) >= 2]


def pass2_rows(rows):
    return sorted((r[0], r[1], r[2]) for r in load_rows(rows) if r[3] == 2)


def dwell_relation(rows_ref, rows_dwell):
    """'Repeated values at the end of the sequence do not change what is counted': None or a description."""
    if pass2_rows(rows_ref) != pass2_rows(rows_dwell):
        return 'the length of the trailing plateau changes the second-pass hystereses'
    a = [(r[0], r[1], r[3]) for r in load_rows(rows_ref) if not r[2]]
    b = [(r[0], r[1], r[3]) for r in load_rows(rows_dwell) if not r[2]]
    if a != b:
        return 'the length of the trailing plateau changes the half-counted (Memory 3) hystereses'
    return None


def _w_multi3(s):
    return _safe(impl_run_multi, (s, [1, 3, 2]))
