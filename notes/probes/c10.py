import numpy as np, pandas as pd, sys, warnings, time
sys.path.insert(0,'/repo/src'); warnings.simplefilter('ignore')
import pylife.strength.fkm_nonlinear.assessment_nonlinear_standard as A
import io, contextlib
def params():
    return pd.Series({'MatGroupFKM':'Steel','FinishingFKM':'none','R_m':600,'R_z':250,'P_A':7.2e-5,'P_L':2.5,'c':1.4,'A_sigma':339.4,'A_ref':500,'G':2/15,'s_L':10,'K_p':3.5,'x_Einsatz':3000,'r':15,"max_load_independently_for_nodes":True})
def run(ls):
    with contextlib.redirect_stdout(io.StringIO()):
        return A.perform_fkm_nonlinear_assessment(params(), ls, calculate_P_RAM=True, calculate_P_RAJ=True)
base=pd.Series([100, -200, 100, -250, 200, 0, 200, -200],dtype=float)
for ratios in ([1,1.2,0.2],[1,3.0],[1,0.5,2.5,1.7]):
    n=len(ratios)
    idx=pd.MultiIndex.from_product([range(len(base)),range(n)],names=['load_step','node_id'])
    ls=pd.Series(index=idx,dtype=float)
    for i,r in enumerate(ratios): ls.loc[ls.index.get_level_values('node_id')==i]=(base*r).to_numpy()
    t=time.time(); rm=run(ls); print('multi time',time.time()-t)
    for i,r in enumerate(ratios):
        rs=run(base*r)
        for k in ('P_RAM_lifetime_n_cycles','P_RAJ_lifetime_n_cycles','P_RAM_is_life_infinite','P_RAJ_is_life_infinite'):
            a=np.atleast_1d(rm[k])[i]; b=rs[k]
            flag = '' if (a==b or (isinstance(a,(float,np.floating)) and np.isclose(a,b,rtol=1e-9))) else '   <<<<<< DIFF'
            print(ratios,i,k,a,b,flag)
