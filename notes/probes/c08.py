import numpy as np, pandas as pd, sys, warnings, random
sys.path.insert(0,'/repo/src'); warnings.simplefilter('ignore')
import pylife.materiallaws
from scipy.stats import norm
random.seed(1); bad=0; tot=0
def rel(a,b): return abs(a-b)<=1e-9*max(1,abs(a),abs(b))
for _ in range(3000):
    k1=random.uniform(1.1,15); k2=random.choice([k1,2*k1-1,25.0,np.inf]); SD=random.uniform(10,800); ND=10**random.uniform(4,7)
    TN=random.uniform(1,20); TS=random.uniform(1,3); p0=random.uniform(0.01,0.99)
    wc=pd.Series({'k_1':k1,'k_2':k2,'SD':SD,'ND':ND,'TN':TN,'TS':TS,'failure_probability':p0})
    w=wc.woehler
    tot+=1
    # inverse
    for p in (0.5,0.1,0.9,p0):
        wt=w.transform_to_failure_probability(p).to_pandas()
        for L in (wt.SD*1.7, wt.SD*1.0000001, wt.SD, wt.SD*0.8):
            N=float(w.cycles(L,p))
            if np.isfinite(N):
                L2=float(w.load(N,p))
                if not rel(L,L2): bad+=1; print('inv',k1,k2,L,N,L2,p); break
    # identity / compose
    t0=w.transform_to_failure_probability(p0).to_pandas()
    if not (rel(t0.SD,SD) and rel(t0.ND,ND)): bad+=1; print('ident',wc.to_dict(),t0.to_dict())
    p1,p2=random.uniform(0.001,0.999),random.uniform(0.001,0.999)
    a=w.transform_to_failure_probability(p1).to_pandas().woehler.transform_to_failure_probability(p2).to_pandas()
    b=w.transform_to_failure_probability(p2).to_pandas()
    if not (rel(a.SD,b.SD) and rel(a.ND,b.ND)): bad+=1; print('compose',a.SD,b.SD,a.ND,b.ND)
    # TN / TS
    L=SD*TS*1.5
    r=float(w.cycles(L,0.9))/float(w.cycles(L,0.1))
    s9=w.transform_to_failure_probability(0.9).to_pandas().SD/w.transform_to_failure_probability(0.1).to_pandas().SD
    if not (abs(r/TN-1)<1e-6): bad+=1; print('TN',r,TN, 'k',k1,k2)
    if not (abs(s9/TS-1)<1e-6): bad+=1; print('TS',s9,TS)
    if bad>12: break
print(tot,bad)
