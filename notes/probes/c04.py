import itertools, numpy as np, pandas as pd, sys, random, warnings
sys.path.insert(0,'/repo/src')
warnings.simplefilter('ignore')
import pylife.stress.rainflow as RF
from pylife.stress.rainflow.fkm_nonlinear import FKMNonlinearDetector
from pylife.stress.rainflow.recorders import FKMNonlinearRecorder
class Law:
    ramberg_osgood_relation=None
    def stress(self, load, **kw): return pd.Series(np.asarray(load,dtype=float)*1.0)
    def strain(self, stress, load): return pd.Series(np.asarray(stress,dtype=float)*0.5)
    def stress_secondary_branch(self, dl, **kw): return pd.Series(np.asarray(dl,dtype=float)*1.0)
    def strain_secondary_branch(self, ds, dl): return pd.Series(np.asarray(ds,dtype=float)*0.5)
def run(s):
    rec=FKMNonlinearRecorder(); d=FKMNonlinearDetector(recorder=rec, notch_approximation_law=Law())
    d.process_hcm_first(np.array(s,dtype=float)); d.process_hcm_second(np.array(s,dtype=float))
    c=rec.collective
    return c
def reversals_periodic(s):
    # reversal sequence of the infinitely repeated sequence, one period, as cyclic list
    # remove consecutive duplicates cyclically
    t=[s[0]]
    for x in s[1:]:
        if x!=t[-1]: t.append(x)
    while len(t)>1 and t[0]==t[-1]: t.pop()
    n=len(t)
    if n<2: return []
    r=[t[i] for i in range(n) if (t[i]-t[i-1])*(t[(i+1)%n]-t[i])<0]
    return r
def fourpoint_spec(turns):
    stk=[]; out=[]
    for d in turns:
        while len(stk)>=3:
            a,b,c=stk[-3:]
            if abs(b-c)<=abs(a-b) and abs(b-c)<=abs(c-d):
                out.append((min(b,c),max(b,c))); stk=stk[:-2]
            else: break
        stk.append(d)
    return out,stk
def spec(s):
    r=reversals_periodic(s)
    if not r: return []
    m=max(range(len(r)), key=lambda i: abs(r[i]))
    rr=r[m:]+r[:m]+[r[m]]
    out,stk=fourpoint_spec(rr)
    # remaining stack should be [max, x, max] -> cycle (x,max)? closing:
    if len(stk)==3: out.append((min(stk[0],stk[1]),max(stk[0],stk[1]))); 
    elif len(stk)!=1: out.append(('STK',tuple(stk)))
    return sorted(out)
bad=0; tot=0
def check(s):
    global bad,tot
    if len(set(s))<2: return
    tot+=1
    try:
        c=run(s)
    except Exception as e:
        bad+=1
        if bad<12: print('EXC',s,repr(e)[:200])
        return
    c2=c[c.run_index==2]
    got=sorted(zip(c2.loads_min,c2.loads_max))
    allclosed=bool(c2.is_closed_hysteresis.all())
    c1=c[c.run_index==1]
    half1=c1[~c1.is_closed_hysteresis.astype(bool)]
    symm=bool((half1.loads_min==-half1.loads_max).all())
    sp=spec(s)
    if got!=[(float(a),float(b)) for a,b in sp] or not allclosed or not symm:
        bad+=1
        if bad<25: print('BAD',s,'got',got,'spec',sp,allclosed,symm)
for n in range(2,6):
    for s in itertools.product(range(-2,3), repeat=n): check(list(s))
print(tot,bad)
print('---- classify')
def is_rev_cyc(s,i):
    n=len(s); return (s[i]-s[i-1])*(s[(i+1)%n]-s[i])<0
bad=0;tot=0
cls={}
import collections
cnt=collections.Counter()
def check2(s):
    c=run(s); c2=c[c.run_index==2]
    got=sorted(zip(c2.loads_min,c2.loads_max)); sp=[(float(a),float(b)) for a,b in spec(s)]
    ok = got==sp and bool(c2.is_closed_hysteresis.all())
    key=(is_rev_cyc(s,len(s)-1), is_rev_cyc(s,0), all(is_rev_cyc(s,i) for i in range(len(s))))
    cnt[(key,ok)]+=1
    if key[2] and not ok: print('PROPER-BAD',s,got,sp)
for n in range(2,6):
    for s in itertools.product(range(-2,3), repeat=n):
        if len(set(s))>=2: check2(list(s))
for k,v in sorted(cnt.items()): print(k,v)
