import numpy as np, pandas as pd, sys, warnings
sys.path.insert(0,'/repo/src'); warnings.simplefilter('ignore')
import pylife.materiallaws.notch_approximation_law as NL
from pylife.utils.histogram import rebin_histogram
law=NL.ExtendedNeuber(E=206e3,K=1184.0,n=0.187,K_p=3.5)
bad=0;tot=0
for Lmax in (250.0, 400.0, 359.3, 1000.0/3):
  for nb in (7,100):
    b=NL.Binned(law,Lmax,nb)
    lut=b._lut_primary_branch
    for k in range(0,nb+1):
        for L in (k/nb*Lmax, np.nextafter(k/nb*Lmax,np.inf), np.nextafter(k/nb*Lmax,-np.inf)):
            if L<0: continue
            tot+=1
            try: s=b.stress(L)
            except ValueError as e:
                if L<=Lmax: bad+=1; print('RAISE in range',Lmax,nb,k,L)
                continue
            if L>Lmax: bad+=1; print('NO RAISE',L,Lmax); continue
            # expected class: smallest j with lut.load[j]>=L  (upper edge)
            j=int(np.searchsorted(lut.load.values,L))
            exp=lut.stress.values[j]*np.sign(L)
            edge_real = int(np.ceil(L*nb/Lmax - 1e-18))
            if s!=exp: bad+=1; print('MISMATCH',Lmax,nb,k,L,s,exp)
print(tot,bad)
# exact-rational expectation vs float class for loads on edges
from fractions import Fraction as F
mis=0
for Lmax in (250.0,359.3,1000.0/3,0.1,1.4*260.0):
  for nb in (100,):
    b=NL.Binned(law,Lmax,nb); loads=b._lut_primary_branch.load.values
    for k in range(1,nb+1):
        exact=F(k,nb)*F(Lmax)
        if F(loads[k-1])!=exact: mis+=1
    print('Lmax',Lmax,'edges not exactly k/n*Lmax:',mis)
# rebin conservation
idx=pd.IntervalIndex.from_breaks([0.,1.,2.5,4.],name='range'); h=pd.Series([3.,5.,7.],index=idx)
for tgt in ([0.,4.],[0.,0.3,3.9,4.],[-1.,0.5,2.5,2.6,10.],[0.,1.,2.5,4.]):
    r=rebin_histogram(h,pd.IntervalIndex.from_breaks(tgt)); print(tgt,r.sum(),list(r.values))
