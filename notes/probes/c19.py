import numpy as np, pandas as pd, sys, warnings
sys.path.insert(0,'/repo/src'); warnings.simplefilter('ignore')
import pylife.mesh, pylife.mesh.gradient
def block(nx,ny,nz, idmap=lambda i:i+1, elmap=lambda e:e+1, jitter=0.0, seed=0):
    rng=np.random.default_rng(seed)
    nid=lambda i,j,k: i+(nx+1)*(j+(ny+1)*k)
    coords={}
    for k in range(nz+1):
        for j in range(ny+1):
            for i in range(nx+1):
                coords[nid(i,j,k)]=np.array([i,j,k],float)+jitter*rng.uniform(-1,1,3)
    rows=[]
    e=0
    for k in range(nz):
        for j in range(ny):
            for i in range(nx):
                ns=[nid(i,j,k),nid(i+1,j,k),nid(i+1,j+1,k),nid(i,j+1,k),nid(i,j,k+1),nid(i+1,j,k+1),nid(i+1,j+1,k+1),nid(i,j+1,k+1)]
                for n in ns: rows.append((elmap(e),idmap(n),*coords[n]))
                e+=1
    df=pd.DataFrame(rows,columns=['element_id','node_id','x','y','z']).set_index(['element_id','node_id'])
    return df
a=np.array([2.0,-3.0,0.5]); b=7.0
for name,idmap in (('contig',lambda i:i+1),('gaps',lambda i:10*i+5),('reversed',lambda i:100-i)):
    df=block(2,2,2,idmap=idmap,jitter=0.1)
    df['f']=df[['x','y','z']].to_numpy()@a+b
    for acc in ('gradient','gradient_3D'):
        try:
            g=getattr(df,acc).gradient_of('f')
            err=np.abs(g.to_numpy()-a).max()
            print(name,acc,'maxerr',err, 'nrows',len(g))
        except Exception as ex:
            print(name,acc,'EXC',repr(ex)[:150])
