import itertools, random
from hcm_fix import spec
from hcm_model import *
def plateau_start(s0):
    j=len(s0)-1
    while j>0 and s0[j-1]==s0[j]: j-=1
    return j
def model_fixed(s):
    s0=[0]+list(s)
    j=plateau_start(s0)
    zero_turn = j in [i for i,_ in find_turns(s0+s0)]          # existing criterion
    per_turn  = j in [i for i,_ in find_turns(s0+list(s))]                # periodic criterion
    flush1 = zero_turn and per_turn
    flush2 = per_turn
    st=([],0,1,0,[],0,0)
    st,r1=hcm_pass(st,s0,flush1)
    st,r2=hcm_pass(st,list(s),flush2)
    return r1,r2
bad=0;tot=0
def chk(s):
    global bad,tot
    tot+=1
    r1,r2=model_fixed(s)
    got=sorted((a,b) for a,b,c,r in r2); ok=all(c for a,b,c,r in r2)
    if got!=spec(s) or not ok:
        bad+=1
        if bad<10: print('BAD',s,got,spec(s),ok)
for n in range(2,8):
    for s in itertools.product(range(-2,3),repeat=n):
        if len(set(s))>=2: chk(list(s))
random.seed(9)
for _ in range(20000):
    n=random.randint(2,30); k=random.choice([2,3,6,20]); s=[random.randint(-k,k) for _ in range(n)]
    if len(set(s))>=2: chk(s)
print(tot,bad)
