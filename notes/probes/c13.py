import numpy as np, pandas as pd, sys, warnings, itertools, random
sys.path.insert(0,'/repo/src'); warnings.simplefilter('ignore')
from pylife import Broadcaster
random.seed(3)
def mk(levels, keys, cols=None, name=None):
    # levels: list of names; keys: list of tuples
    if len(levels)==1:
        idx=pd.Index([k[0] for k in keys], name=levels[0])
    else:
        idx=pd.MultiIndex.from_tuples(keys, names=levels)
    if cols is None:
        return pd.Series([random.random() for _ in keys], index=idx, name=name)
    return pd.DataFrame({c:[random.random() for _ in keys] for c in cols}, index=idx)
def lookup(orig, key_by_name):
    names=list(orig.index.names)
    k=tuple(key_by_name[n] for n in names)
    k=k if len(k)>1 else k[0]
    try:
        v=orig.loc[k]
    except KeyError:
        return None
    return v
def check(obj, prm, tag):
    o0=obj.copy(deep=True); p0=prm.copy(deep=True)
    try:
        p,o=Broadcaster(obj).broadcast(prm)
    except Exception as e:
        same = obj.equals(o0) and prm.equals(p0) and list(obj.index.names)==list(o0.index.names) and list(prm.index.names)==list(p0.index.names)
        print(tag,'EXC',repr(e)[:100],'operands intact:',same)
        return
    ok_idx = p.index.equals(o.index)
    intact = obj.equals(o0) and prm.equals(p0) and list(obj.index.names)==list(o0.index.names) and list(prm.index.names)==list(p0.index.names)
    # row values
    bad=0
    for i,key in enumerate(o.index):
        key = key if isinstance(key,tuple) else (key,)
        kb=dict(zip(o.index.names,key))
        for orig,res in ((obj,o),(prm,p)):
            exp=lookup(orig,kb)
            got=res.iloc[i]
            if exp is None:
                if not pd.isna(got).all() if hasattr(got,'all') else not pd.isna(got): bad+=1
            else:
                e=np.atleast_1d(np.asarray(exp,dtype=float)).ravel(); g=np.atleast_1d(np.asarray(got,dtype=float)).ravel()
                if e.shape!=g.shape or not np.allclose(e,g,equal_nan=True): bad+=1
    print(tag,'index-eq',ok_idx,'intact',intact,'badrows',bad,'n',len(o))
A=['a','b','c']
check(mk(['x'],[(1,),(2,),(3,)]), mk(['y'],[(10,),(20,)]),'disjoint S-S')
check(mk(['x'],[(1,),(2,),(3,)],cols=['u','v']), mk(['x'],[(3,),(1,),(2,)]),'same level permuted F-S')
check(mk(['x','y'],[(1,10),(1,20),(2,10)]), mk(['y'],[(10,),(20,)]),'contained')
check(mk(['x','y'],[(1,10),(1,20),(2,10)]), mk(['y','z'],[(10,'p'),(20,'p'),(10,'q'),(20,'q')]),'overlap')
check(mk(['y','x'],[(10,1),(20,1),(10,2)]), mk(['x','y'],[(1,10),(1,20),(2,10)]),'same levels diff order')
check(mk(['x','y','w'],[(1,10,0),(1,20,0),(2,10,1)]), mk(['y','z'],[(10,'p'),(20,'p'),(10,'q'),(20,'q')]),'overlap 3 levels')
check(mk([None],[(1,),(2,)],cols=['u']), mk(['y'],[(10,),(20,)]),'unnamed obj level F-S')
check(mk(['x'],[(1,),(2,)],cols=['u']), mk([None],[(10,),(20,),(30,)]),'unnamed prm level')
check(mk(['x'],[(1,),(2,),(2,)],cols=['u']), mk(['y'],[(10,),(20,)]),'dup keys obj')
check(mk(['x'],[(1,),(2,)]), mk(['x'],[(2,),(3,)]),'partial shared keys S-S')
