import numpy as np, pandas as pd, sys, warnings
sys.path.insert(0,'/repo/src'); warnings.simplefilter('ignore')
import pylife.strength.miner, pylife.strength.fatigue, pylife.stress.collective
wc = pd.Series({'k_1':5.0,'ND':1e6,'SD':100.0,'k_2':np.inf})
def hist(edges, counts):
    idx=pd.IntervalIndex.from_breaks(edges, name='range')
    return pd.Series(counts, index=idx, name='cycles', dtype=float)
for counts in ([10,5,2,1],[10,5,2,0],[0,5,2,1],[10,0,2,1],[10,5,0,0]):
    h=hist([0,200,400,600,800],counts)   # ranges -> amplitudes 50,150,250,350
    lc=h.load_collective
    for name,acc,mod in (('elem',wc.gassner_miner_elementary,'miner_elementary'),('haib',wc.gassner_miner_haibach,'miner_haibach')):
        Ng=acc.gassner_cycles(lc)
        A=acc.lifetime_multiple(lc)
        curve=getattr(wc.fatigue,mod)()
        scaled = h*Ng/h.sum()
        dmg=pylife.strength.fatigue.Fatigue(curve.to_pandas()).damage(scaled.load_collective).sum()
        print(counts,name,'A=%.4g Ng=%.6g damage=%.6f'%(A,Ng,dmg))
print(pylife.strength.miner.effective_damage_sum(1e-9), pylife.strength.miner.effective_damage_sum(1e9), pylife.strength.miner.effective_damage_sum(np.inf), pylife.strength.miner.effective_damage_sum(0.0))
