import numpy as np, pandas as pd, sys, warnings, itertools
sys.path.insert(0,'/repo/src'); warnings.simplefilter('ignore')
import pylife.strength.meanstress as MS
def goodman_closed(amp, mean, M, M2, Rg):
    # iso-damage closed form via equivalent amplitude at R=-1 then to Rg
    # piecewise FKM: regions by R = (m-a)/(m+a)
    def to_Rm1(a,m):
        if a<=0: return a
        R = (m-a)/(m+a) if (m+a)!=0 else -np.inf
        if R>1 or (m+a)<=0 and m<0 and R>=1:  # compressive region: slope 0
            return a
        if m<=0:  # R in [-inf,-1] region (-inf,0): slope M... careful
            pass
        return None
    return None
M=0.3; M2=0.1
cases=0; bad=0
vals=[-3,-2,-1,-0.5,0,0.5,1,2,3]
Rs=[-np.inf,-3.0,-1.0,-0.5,0.0,0.25,0.5,2.0,5.0]
for a in [0.5,1,2]:
    for m in vals:
        for R1 in Rs:
            for R2 in Rs:
                amp=np.array([float(a)]); mean=np.array([float(m)])
                d=MS.fkm_goodman(amp,mean,M,M2,R2)[0]
                a1=MS.fkm_goodman(amp,mean,M,M2,R1)[0]
                if not np.isfinite(a1) or a1<=0: continue
                m1 = a1*(1+R1)/(1-R1) if np.isfinite(R1) else -a1
                t=MS.fkm_goodman(np.array([a1]),np.array([m1]),M,M2,R2)[0]
                cases+=1
                if not np.isclose(d,t,rtol=1e-9,atol=1e-12):
                    bad+=1
                    if bad<15: print('PATH',a,m,R1,R2,'direct',d,'via',t,'a1',a1,'m1',m1)
print(cases,bad)
