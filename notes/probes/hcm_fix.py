import itertools, random
from hcm_model import *
def fourpoint_spec(turns):
    stk=[]; out=[]
    for d in turns:
        while len(stk)>=3:
            a,b,c=stk[-3:]
            if abs(b-c)<=abs(a-b) and abs(b-c)<=abs(c-d):
                out.append((min(b,c),max(b,c))); stk=stk[:-2]
            else: break
        stk.append(d)
    return out,stk
def reversals_periodic(s):
    t=[s[0]]
    for x in s[1:]:
        if x!=t[-1]: t.append(x)
    while len(t)>1 and t[0]==t[-1]: t.pop()
    n=len(t)
    if n<2: return []
    return [t[i] for i in range(n) if (t[i]-t[i-1])*(t[(i+1)%n]-t[i])<0]
def spec(s):
    r=reversals_periodic(s)
    if not r: return []
    m=max(range(len(r)), key=lambda i: abs(r[i]))
    rr=r[m:]+r[:m]+[r[m]]
    out,stk=fourpoint_spec(rr)
    if len(stk)==3: out.append((min(stk[0],stk[1]),max(stk[0],stk[1])))
    elif len(stk)!=1: out.append(('STK',tuple(stk)))
    return sorted(out)
def model_fixed(s, variant):
    s0=[0]+list(s)
    if variant=='A':   # decide from [0]+s+s, same decision for pass 2
        twice=s0+list(s)
        ti=[i for i,_ in find_turns(twice)]
        flush1 = (len(s0)-1) in ti
        flush2 = flush1
    st=([],0,1,0,[],0,0)
    st,r1=hcm_pass(st,s0,flush1)
    st,r2=hcm_pass(st,list(s),flush2)
    return r1,r2
for variant in ('A',):
    bad=0;tot=0
    def chk(s):
        global bad,tot
        tot+=1
        r1,r2=model_fixed(s,variant)
        got=sorted((a,b) for a,b,c,r in r2); ok=all(c for a,b,c,r in r2)
        if got!=spec(s) or not ok:
            bad+=1
            if bad<10: print(variant,'BAD',s,got,spec(s),ok)
    for n in range(2,8):
        for s in itertools.product(range(-2,3),repeat=n):
            if len(set(s))>=2: chk(list(s))
    random.seed(9)
    for _ in range(20000):
        n=random.randint(2,30); k=random.choice([2,3,6,20]); s=[random.randint(-k,k) for _ in range(n)]
        if len(set(s))>=2: chk(s)
    print(variant,tot,bad)
# and the current behaviour restricted to last-is-periodic-reversal, larger domain
bad=0;tot=0
for n in range(2,8):
    for s in itertools.product(range(-2,3),repeat=n):
        s=list(s)
        if len(set(s))<2: continue
        m=len(s)
        if not ((s[-1]-s[-2])*(s[0]-s[-1])<0): 
            # need cyclic reversal with plateau handling: use reversal list membership by position is messy; approximate by strict neighbours
            continue
        tot+=1
        r=model(s); r2=[x for x in r if x[3]==2]
        if sorted((a,b) for a,b,c,_ in r2)!=spec(s) or not all(c for _,_,c,_ in r2): bad+=1; 
print('current, last strictly reverses between s[-2] and s[0]:',tot,bad)
