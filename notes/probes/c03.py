import numpy as np, pandas as pd, sys, warnings, random
sys.path.insert(0,'/repo/src'); warnings.simplefilter('ignore')
import pylife.stress.rainflow as RF
def run(det, s, chunks=None):
    rec=RF.FullRecorder(); d=det(recorder=rec)
    if chunks is None: d.process(s)
    else:
        for c in chunks: d.process(c)
    return (list(rec.values_from),list(rec.values_to),list(map(int,rec.index_from)),list(map(int,rec.index_to)),list(np.asarray(d.residuals,float)),list(map(int,d.residual_index)))
random.seed(7); bad=0; tot=0
for _ in range(3000):
    n=random.randint(4,30); s=[float(random.randint(-4,4)) for _ in range(n)]
    # insert NaNs away from ends
    pos=sorted(random.sample(range(1,n-1),random.randint(1,min(4,n-2))))
    t=[]; orig_pos=[]
    for i,x in enumerate(s):
        if i in pos and random.random()<0.5: t.append(np.nan); 
        if i in pos: t.append(np.nan)
        orig_pos.append(len(t)); t.append(x)
    for det in (RF.ThreePointDetector,RF.FourPointDetector):
        tot+=1
        a=run(det,np.array(s)); b=run(det,np.array(t))
        ok = a[0]==b[0] and a[1]==b[1] and a[4]==b[4]
        # indices refer to original positions
        okidx = all(t[i]==v for i,v in zip(b[2],b[0])) and all(t[i]==v for i,v in zip(b[3],b[1])) and all(t[i]==v for i,v in zip(b[5],b[4]))
        # chunked with nans
        cut=random.randint(1,len(t)-1)
        c=run(det,None,[np.array(t[:cut]),np.array(t[cut:])])
        okc = (c==b)
        if not (ok and okidx and okc):
            bad+=1
            if bad<8: print(det.__name__,'s',s,'t',t,'cut',cut,ok,okidx,okc,'\n a',a,'\n b',b,'\n c',c)
print(tot,bad)
# series index types
s=np.array([0.,3,1,4,-2,5,5,0,2])
for idx in (None, pd.Index(np.arange(9)*0.5), pd.date_range('2020',periods=9), pd.Index(list('abcdefghi')), pd.Index([5,3,8,1,9,2,7,4,6])):
    ser=pd.Series(s,index=idx)
    for det in (RF.ThreePointDetector,RF.FourPointDetector,RF.FKMDetector):
        try: print(type(idx).__name__ if idx is not None else 'range', det.__name__, run(det,ser)==run(det,s))
        except Exception as e: print(type(idx).__name__, det.__name__,'EXC',repr(e)[:120])
