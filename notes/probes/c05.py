import numpy as np, pandas as pd, sys, warnings, random
sys.path.insert(0,'/repo/src'); warnings.simplefilter('ignore')
import pylife.materiallaws.notch_approximation_law as NL
from pylife.stress.rainflow.fkm_nonlinear import FKMNonlinearDetector
from pylife.stress.rainflow.recorders import FKMNonlinearRecorder
law=NL.ExtendedNeuber(E=206e3,K=1184.0,n=0.187,K_p=3.5)
COLS=['loads_min','loads_max','S_min','S_max','R','epsilon_min','epsilon_max','S_a','S_m','epsilon_a','epsilon_m','epsilon_min_LF','epsilon_max_LF','is_closed_hysteresis','is_zero_mean_stress_and_strain','run_index']
def run_single(s, Lmax=None):
    s=np.asarray(s,float)
    b=NL.Binned(law, Lmax or np.abs(s).max(), 100)
    rec=FKMNonlinearRecorder(); d=FKMNonlinearDetector(recorder=rec, notch_approximation_law=b)
    d.process_hcm_first(s); d.process_hcm_second(s)
    return rec.collective[COLS].reset_index(drop=True), d.strain_values
def run_multi(s, ratios):
    s=np.asarray(s,float); n=len(ratios)
    idx=pd.MultiIndex.from_product([range(len(s)),range(n)],names=['load_step','node_id'])
    ls=pd.Series(np.outer(s,ratios).ravel(),index=idx)
    Lmax=pd.Series([np.abs(s).max()*r for r in ratios],index=pd.Index(range(n),name='node_id'))
    b=NL.Binned(law,Lmax,100)
    rec=FKMNonlinearRecorder(); d=FKMNonlinearDetector(recorder=rec, notch_approximation_law=b)
    d.process_hcm_first(ls); d.process_hcm_second(ls)
    return rec.collective
random.seed(3); bad=0; tot=0
for _ in range(60):
    n=random.randint(3,14); s=[float(random.choice([-1,1])*random.randint(0,40)*7.3) for _ in range(n)]
    if len(set(s))<2: continue
    # restrict to the class where C04 holds: last sample periodic reversal
    if not ((s[-1]-s[-2])*(s[0]-s[-1])<0): continue
    tot+=1
    a,sv=run_single(s); m,svm=run_single([-x for x in s])
    # mirror
    ok_m = np.allclose(a.S_min,-m.S_max) and np.allclose(a.S_max,-m.S_min) and np.allclose(a.epsilon_min,-m.epsilon_max) and np.allclose(a.epsilon_max,-m.epsilon_min) and list(a.is_closed_hysteresis)==list(m.is_closed_hysteresis) and list(a.run_index)==list(m.run_index) and np.allclose(a.epsilon_min_LF,-m.epsilon_max_LF) and np.allclose(a.epsilon_max_LF,-m.epsilon_min_LF) and np.allclose(sv,-np.asarray(svm))
    # multi
    ratios=[1.0]+[random.choice([0.5,2.0,1.25,0.3,3.0]) for _ in range(random.randint(1,3))]
    try:
        mm=run_multi(s,ratios); ok_b=True
        for j,r in enumerate(ratios):
            sj,_=run_single([x*r for x in s])
            mj=mm[mm.index.get_level_values('assessment_point_index')==j].reset_index(drop=True)
            for c in COLS:
                u=np.asarray(mj[c],dtype=float); v=np.asarray(sj[c],dtype=float)
                if u.shape!=v.shape or not np.allclose(u,v,rtol=1e-12,atol=0,equal_nan=True): ok_b=False; why=(j,r,c,u,v); break
            if not ok_b: break
    except Exception as e:
        ok_b=False; why=repr(e)[:200]
    if not (ok_m and ok_b):
        bad+=1
        if bad<6: print('BAD',s,'mirror',ok_m,'batch',ok_b, None if ok_b else why)
print(tot,bad)
