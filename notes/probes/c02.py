import itertools, numpy as np, sys, random
sys.path.insert(0,'/repo/src')
import pylife.stress.rainflow as RF
from pylife.stress.rainflow.general import find_turns
def run(det_cls, s):
    rec = RF.FullRecorder()
    d = det_cls(recorder=rec)
    d.process(np.array(s,dtype=float))
    return (list(zip(rec.values_from, rec.values_to)), list(zip(rec.index_from, rec.index_to)), list(np.asarray(d.residuals,dtype=float)), list(d.residual_index))
def fourpoint_spec(turns):
    stk=[]; out=[]
    for d in turns:
        while len(stk)>=3:
            a,b,c=stk[-3:]
            if abs(b-c)<=abs(a-b) and abs(b-c)<=abs(c-d):
                out.append((b,c)); stk=stk[:-2]
            else: break
        stk.append(d)
    return out,stk
bad=0;tot=0
def check(s):
    global bad,tot
    tot+=1
    s=list(map(float,s))
    idx,tv=find_turns(np.array(s))
    turns=[s[0]]+list(tv)+[s[-1]]
    spec=fourpoint_spec(turns)
    r4=run(RF.FourPointDetector,s); r3=run(RF.ThreePointDetector,s)
    ok = r4[0]==spec[0] and r4[2]==spec[1]
    ok3 = sorted(map(lambda c:(min(c),max(c)),r3[0]))==sorted(map(lambda c:(min(c),max(c)),r4[0])) and r3[2]==r4[2]
    ok3d = sorted(r3[0])==sorted(r4[0])
    if not (ok and ok3 and ok3d):
        bad+=1
        if bad<10: print('BAD',s,ok,ok3,ok3d,spec,r4,r3)
for n in range(2,8):
    for s in itertools.product(range(4), repeat=n): check(s)
random.seed(1)
for _ in range(3000):
    n=random.randint(2,40); check([random.randint(-6,6) for _ in range(n)])
print(tot,bad)
