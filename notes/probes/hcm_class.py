import itertools, random, collections
from hcm_fix import spec
from hcm_model import *
cnt=collections.Counter()
ex={}
def chk(s):
    s0=[0]+list(s)
    z=(len(s0)-1) in [i for i,_ in find_turns(s0+s0)]
    p=(len(s0)-1) in [i for i,_ in find_turns(s0+list(s))]
    r=model(s); r2=[x for x in r if x[3]==2]
    ok = sorted((a,b) for a,b,c,_ in r2)==spec(s) and all(c for _,_,c,_ in r2)
    cnt[(z,p,ok)]+=1
    if not ok and (z,p) not in ex: ex[(z,p)]=s
for n in range(2,7):
    for s in itertools.product(range(-2,3),repeat=n):
        if len(set(s))>=2: chk(list(s))
random.seed(9)
for _ in range(30000):
    n=random.randint(2,30); k=random.choice([2,3,6,20]); s=[random.randint(-k,k) for _ in range(n)]
    if len(set(s))>=2: chk(s)
for k,v in sorted(cnt.items()): print(k,v)
print(ex)
