import numpy as np, pandas as pd, sys, warnings, random
sys.path.insert(0,'/repo/src'); warnings.simplefilter('ignore')
import pylife.materiallaws.notch_approximation_law as NL
import pylife.materiallaws.notch_approximation_law_seegerbeste as SB
random.seed(4)
stats={'EN':[0,0,0],'SB':[0,0,0]}
worst={'EN':0,'SB':0}
for _ in range(1500):
    Rm=random.uniform(200,1400); E=random.choice([206e3,70e3,110e3]); n=random.uniform(0.1,0.25); K=Rm*random.uniform(1.2,2.5)
    Kp=random.choice([1.0,1.001,1.5,3.5,10.0]); L=random.uniform(1e-3,4)*Rm*random.choice([1,-1]); tol=10**-random.randint(4,10)
    for name,cls in (('EN',NL.ExtendedNeuber),('SB',SB.SeegerBeste)):
        if name=='SB' and Kp==1.0: continue
        law=cls(E,K,n,Kp)
        stats[name][0]+=1
        try:
            s=float(law.stress(float(L),rtol=tol,tol=tol))
        except Exception as e:
            stats[name][1]+=1; continue
        # residual relative
        if name=='EN':
            f=float(law._stress_implicit(np.float64(s),np.float64(L)))
            scale=abs(float(law._ramberg_osgood_relation.strain(s)))
            res=abs(f)/max(scale,1e-30)
        else:
            res=abs(float(law._stress_implicit(np.float64(s),np.float64(L))))
        inb = abs(L)/Kp*(1-1e-6) <= abs(s) <= abs(L)*(1+1e-6) and np.sign(s)==np.sign(L)
        odd = np.isclose(float(law.stress(float(-L),rtol=tol,tol=tol)),-s,rtol=1e-3*1)
        if res>max(1e-3,100*tol) or not inb:
            stats[name][2]+=1
            if stats[name][2]<6: print(name,'BAD',dict(Rm=Rm,E=E,n=n,K=K,Kp=Kp,L=L,tol=tol),'s',s,'res',res,'inb',inb)
        worst[name]=max(worst[name],res)
print(stats,worst)
