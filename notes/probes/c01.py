import itertools, numpy as np, sys, warnings
sys.path.insert(0,'/repo/src')
import pylife.stress.rainflow as RF
def run(det_cls, chunks):
    rec = RF.FullRecorder()
    d = det_cls(recorder=rec)
    for c in chunks: d.process(np.array(c,dtype=float))
    return (list(rec.values_from), list(rec.values_to), list(rec.index_from), list(rec.index_to), list(np.asarray(d.residuals,dtype=float)), list(d.residual_index))
def partitions(n):
    for mask in range(1<<(n-1)):
        cuts=[i+1 for i in range(n-1) if mask>>i&1]
        yield [0]+cuts+[n]
bad=0; tot=0
vals=[0,1,2]
for n in range(1,8):
    for s in itertools.product(vals, repeat=n):
        for det in (RF.ThreePointDetector, RF.FourPointDetector, RF.FKMDetector):
            try:
                whole = run(det,[list(s)])
            except Exception as e:
                print('EXC whole',det.__name__,s,repr(e)); continue
            for p in partitions(n):
                chunks=[list(s[p[i]:p[i+1]]) for i in range(len(p)-1)]
                tot+=1
                try:
                    r = run(det,chunks)
                except Exception as e:
                    bad+=1
                    if bad<15: print('EXC',det.__name__,s,chunks,repr(e))
                    continue
                if r!=whole:
                    bad+=1
                    if bad<15: print('DIFF',det.__name__,s,chunks,whole,r)
print(tot,bad)
