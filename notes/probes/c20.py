import numpy as np, pandas as pd, sys, warnings, os, tempfile
sys.path.insert(0,'/repo/src'); warnings.simplefilter('ignore')
import pylife.vmap as vmap
from pylife.vmap.vmap_structures import VariableLocations
def mesh(rows):
    df=pd.DataFrame(rows,columns=['element_id','node_id','x','y','z','S11']).set_index(['element_id','node_id'])
    return df
def coords(n): return (float(n%3), float(n//3%3)+0.25*n, float(n//9)+0.5*n)
def mk(elems, order=None):
    rows=[]
    for e,ns in elems:
        for n in ns: rows.append((e,n,*coords(n),100.0*e+n))
    if order is not None: rows=[rows[i] for i in order]
    return mesh(rows)
def roundtrip(df, tag):
    fn=tempfile.mktemp(suffix='.vmap')
    try:
        ex=vmap.VMAPExport(fn)
        ex.add_geometry('g',df)
        ex.add_variable('st','g','S11',df,column_names=['S11'],location=VariableLocations.ELEMENT_NODAL)
        im=vmap.VMAPImport(fn)
        back=im.make_mesh('g','st').join_coordinates().join_variable('S11',column_names=['S11']).to_frame()
        exp=df.copy()
        # expected: elements ordered by id, node order within element preserved
        exp=exp.reset_index(); exp['_o']=np.arange(len(exp)); exp=exp.sort_values(['element_id','_o'],kind='stable').drop(columns='_o').set_index(['element_id','node_id'])
        same_index = list(back.index)==list(exp.index)
        same_vals = same_index and np.allclose(back[['x','y','z','S11']].to_numpy(), exp[['x','y','z','S11']].to_numpy())
        print(tag,'index ok',same_index,'values ok',same_vals)
        if not same_vals: print(back.head(12)); print(exp.head(12))
    except Exception as e:
        print(tag,'EXC',repr(e)[:200])
    finally:
        if os.path.exists(fn): os.remove(fn)
tets=[(1,[1,2,3,4]),(2,[2,3,4,5])]
roundtrip(mk(tets),'plain')
roundtrip(mk([(7,[10,20,30,40]),(3,[20,30,40,50])]),'ids gaps, elem order desc')
roundtrip(mk(tets,order=[0,4,1,5,2,6,3,7]),'interleaved rows')
roundtrip(mk([(1,[1,2,3,4]),(2,[2,3,4,5,6,7,8,9,10,11])]),'mixed tet4/tet10')
roundtrip(mk([(1,[1,2,3,4]),(2,[5,6,7,8,9,10,11,12])]),'mixed tet4/hex8')
roundtrip(mk([(70000,[3000000000,2,3,4]),(2,[2,3,4,5])]),'id > int32')
