import numpy as np, sys, warnings
sys.path.insert(0,'/repo/src'); warnings.simplefilter('ignore')
from scipy.stats import norm
from pylife.strength.fkm_nonlinear.parameter_calculations import compute_beta
bad=0
for p in list(np.logspace(-12,np.log10(0.5),200))+[0.5,0.25,0.1,1e-3,7.2e-5,1e-7]:
    try:
        b=compute_beta(p); ref=-norm.ppf(p)
        if abs(b-ref)>1e-6*max(1,abs(ref)):
            bad+=1; print('MISMATCH',p,b,ref)
    except Exception as e:
        bad+=1; print('EXC',p,repr(e)[:100])
print('bad',bad)
