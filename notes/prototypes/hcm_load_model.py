"""Pure-function transcription of FKMNonlinearDetector's load logic (stand-in for the Gallina model)."""
import itertools, numpy as np, pandas as pd, sys, random, warnings
sys.path.insert(0,'/repo/src'); warnings.simplefilter('ignore')
from pylife.stress.rainflow.fkm_nonlinear import FKMNonlinearDetector
from pylife.stress.rainflow.recorders import FKMNonlinearRecorder

def sgn(x): return (x>0)-(x<0)
def find_turns(s):
    out=[]
    if not s: return out
    p=s[0]; d=0; c=0
    for i,x in enumerate(s[1:],1):
        if x==p: continue
        e=sgn(x-p)
        if d!=0 and e!=d: out.append((c,p))
        p,d,c=x,e,i
    return out
def new_turns(tail, head, chunk, flush):
    swt=tail+chunk
    t=find_turns(swt)
    sti=t[-1][0] if t else 0
    t2=[(i+head-len(tail),v) for i,v in t]
    tl=swt[sti:]; hd=head+len(chunk)
    if flush and tl:
        t2.append((hd-1,tl[-1])); tl=tl[-1:]
    return t2,tl,hd
# state: residual loads, iz, ir, lmax, tail, head, run
def hcm_pass(st, samples, flush):
    res,iz,ir,lmax,tail,head,run=st
    run+=1
    t,tail,head=new_turns(tail,head,samples,flush)
    recs=[]; res=list(res)
    for _,L in t:
        while True:
            if iz==ir:
                if abs(L)>lmax:
                    prev=res[-1]
                    recs.append((-abs(prev),abs(prev),False,run)); ir+=1
                break
            if iz<ir: break
            p0,p1=res[-2],res[-1]
            if abs(L-p1)<abs(p1-p0): break
            recs.append((min(p0,p1),max(p0,p1),True,run)); res.pop(); res.pop(); iz-=2
            if abs(p0)<lmax and abs(p1)<lmax: continue
            break
        if abs(L)>lmax: lmax=abs(L)
        iz+=1; res.append(L)
    return (res,iz,ir,lmax,tail,head,run),recs
def model(s):
    s0=[0]+list(s)
    twice=s0+s0
    ti=[i for i,_ in find_turns(twice)]
    flush = (len(s0)-1) in ti
    st=([],0,1,0,[],0,0)
    st,r1=hcm_pass(st,s0,flush)
    st,r2=hcm_pass(st,list(s),True)
    return r1+r2
class Law:
    ramberg_osgood_relation=None
    def stress(self, load, **kw): return pd.Series(np.asarray(load,dtype=float)*1.0)
    def strain(self, stress, load): return pd.Series(np.asarray(stress,dtype=float)*0.5)
    def stress_secondary_branch(self, dl, **kw): return pd.Series(np.asarray(dl,dtype=float)*1.0)
    def strain_secondary_branch(self, ds, dl): return pd.Series(np.asarray(ds,dtype=float)*0.5)
def impl(s):
    rec=FKMNonlinearRecorder(); d=FKMNonlinearDetector(recorder=rec, notch_approximation_law=Law())
    d.process_hcm_first(np.array(s,dtype=float)); d.process_hcm_second(np.array(s,dtype=float))
    c=rec.collective
    return [(float(a),float(b),bool(cl),int(r)) for a,b,cl,r in zip(c.loads_min,c.loads_max,c.is_closed_hysteresis,c.run_index)]
if __name__=='__main__':
    bad=0;tot=0
    def check(s):
        global bad,tot
        tot+=1
        try: a=impl(s)
        except Exception as e: a=('EXC',type(e).__name__)
        try: b=[(float(x),float(y),c,r) for x,y,c,r in model(s)]
        except Exception as e: b=('EXC',type(e).__name__)
        if a!=b:
            bad+=1
            if bad<12: print('DIFF',s,'\n impl ',a,'\n model',b)
    for n in range(2,6):
        for s in itertools.product(range(-2,3),repeat=n):
            if len(set(s))>=2: check(list(s))
    random.seed(2)
    for _ in range(400):
        n=random.randint(2,25); k=random.choice([2,3,6])
        s=[random.randint(-k,k) for _ in range(n)]
        if len(set(s))>=2: check(s)
    print(tot,bad)
