From Coq Require Import ZArith List Bool Lia.
Import ListNotations.
Open Scope Z_scope.

(* ---------- find_turns: streaming scan ---------- *)
(* state: prev value, last non-zero direction (0 none), index of first sample of current run *)
Fixpoint scan (p d : Z) (c i : nat) (s : list Z) : list (nat * Z) :=
  match s with
  | [] => []
  | x :: r =>
      if x =? p then scan p d c (S i) r
      else let e := Z.sgn (x - p) in
           let rest := scan x e i (S i) r in
           if (negb (d =? 0)) && negb (e =? d) then (c, p) :: rest else rest
  end.
Definition find_turns (s : list Z) : list (nat * Z) :=
  match s with [] => [] | x :: r => scan x 0 0%nat 1%nat r end.

(* ---------- detector state ---------- *)
Record dstate := { tail : list Z; head : nat; resid : list Z; ridx : list nat;
                   cyc : list (Z * Z * nat * nat); chunks : list nat }.
Definition init := {| tail := []; head := 0; resid := []; ridx := [0%nat]; cyc := []; chunks := [] |}.

Definition lastn1 {A} (l : list A) : list A := match rev l with [] => [] | x :: _ => [x] end.

Definition new_turns (tl : list Z) (hd : nat) (chunk : list Z) (flush : bool)
  : list (nat * Z) * list Z * nat :=
  let swt := tl ++ chunk in
  let t := find_turns swt in
  let sti := match rev t with [] => 0%nat | (i, _) :: _ => i end in
  let t' := map (fun iv => ((fst iv + hd - length tl)%nat, snd iv)) t in
  let tl' := skipn sti swt in
  let hd' := (hd + length chunk)%nat in
  if flush then (t' ++ map (fun v => ((hd' - 1)%nat, v)) (lastn1 tl'), lastn1 tl', hd')
  else (t', tl', hd').

(* ---------- four-point kernel: stack of positions into turns ---------- *)
(* stack: top first, holds (position) ; turns as list with nth *)
Definition nthZ (l : list Z) (i : nat) := nth i l 0.
Definition nthN (l : list nat) (i : nat) := nth i l 0%nat.

Fixpoint close4 (fuel : nat) (turns : list Z) (tidx : list nat) (stk : list nat) (d : Z)
   (out : list (Z*Z*nat*nat)) : list nat * list (Z*Z*nat*nat) :=
  match fuel with
  | O => (stk, out)
  | S f =>
    match stk with
    | c :: b :: a :: rest =>
        let av := nthZ turns a in let bv := nthZ turns b in let cv := nthZ turns c in
        let ab := Z.abs (av - bv) in let bc := Z.abs (bv - cv) in let cd := Z.abs (cv - d) in
        if (bc <=? ab) && (bc <=? cd)
        then close4 f turns tidx (a :: rest) d (out ++ [(bv, cv, nthN tidx b, nthN tidx c)])
        else (stk, out)
    | _ => (stk, out)
    end
  end.

Fixpoint loop4 (turns : list Z) (tidx : list nat) (i : nat) (rest : list Z) (stk : list nat)
   (out : list (Z*Z*nat*nat)) : list nat * list (Z*Z*nat*nat) :=
  match rest with
  | [] => (stk, out)
  | d :: r =>
      let '(stk', out') := close4 (length stk) turns tidx stk d out in
      loop4 turns tidx (S i) r (i :: stk') out'
  end.

Definition fourpoint_loop (turns : list Z) (tidx : list nat) : list (Z*Z*nat*nat) * list nat :=
  (* first two pushed unconditionally: equivalent, since closing needs 3 on the stack *)
  let '(stk, out) := loop4 turns tidx 0%nat turns [] [] in (out, rev stk).

Definition process4 (st : dstate) (chunk : list Z) : dstate :=
  let residuals := match resid st with [] => firstn 1 chunk | _ => removelast (resid st) end in
  let '(t, tl', hd') := new_turns (tail st) (head st) chunk false in
  let turns := residuals ++ map snd t ++ lastn1 chunk in
  let tidx := ridx st ++ map fst t in
  let '(out, ri) := fourpoint_loop turns tidx in
  {| tail := tl'; head := hd';
     resid := map (nthZ turns) ri;
     ridx := map (nthN tidx) (removelast ri);
     cyc := cyc st ++ out; chunks := chunks st ++ [length chunk] |}.

Definition obs (st : dstate) := (cyc st, resid st, ridx st ++ [(head st - 1)%nat]).
Definition run4 (chs : list (list Z)) := obs (fold_left process4 chs init).

(* ---------- enumeration ---------- *)
Fixpoint sigs (alph : list Z) (n : nat) : list (list Z) :=
  match n with O => [[]] | S k => flat_map (fun s => map (fun a => a :: s) alph) (sigs alph k) end.
Fixpoint parts (s : list Z) : list (list (list Z)) :=
  match s with
  | [] => [[]]
  | [x] => [[[x]]]
  | x :: r => flat_map (fun p => match p with [] => [] | c :: cs => [ (x :: c) :: cs ; [x] :: c :: cs ] end) (parts r)
  end.
Fixpoint leqb {A} (e : A -> A -> bool) (a b : list A) : bool :=
  match a, b with [], [] => true | x :: r, y :: t => e x y && leqb e r t | _, _ => false end.
Definition cyceq (x y : Z*Z*nat*nat) : bool :=
  let '(a,b,c,d) := x in let '(a',b',c',d') := y in (a =? a') && (b =? b') && Nat.eqb c c' && Nat.eqb d d'.
Definition eqobs (a b : list (Z*Z*nat*nat) * list Z * list nat) : bool :=
  let '(c1, r1, i1) := a in let '(c2, r2, i2) := b in
  leqb cyceq c1 c2 && leqb Z.eqb r1 r2 && leqb Nat.eqb i1 i2.
Definition chunk_ok (s : list Z) : bool := forallb (fun p => eqobs (run4 p) (run4 [s])) (parts s).
