From Coq Require Import Reals Lra Nsatz.
Open Scope R_scope.
Section Rot.
Variables q11 q12 q13 q21 q22 q23 q31 q32 q33 : R.
Variables s11 s22 s33 s12 s13 s23 : R.
(* G = Q^T Q = I *)
Hypothesis g11 : q11*q11+q21*q21+q31*q31 = 1.
Hypothesis g22 : q12*q12+q22*q22+q32*q32 = 1.
Hypothesis g33 : q13*q13+q23*q23+q33*q33 = 1.
Hypothesis g12 : q11*q12+q21*q22+q31*q32 = 0.
Hypothesis g13 : q11*q13+q21*q23+q31*q33 = 0.
Hypothesis g23 : q12*q13+q22*q23+q32*q33 = 0.
(* B = Q A Q^T, A symmetric *)
Definition a (i j : nat) : R :=
  match i, j with
  | 1%nat,1%nat => s11 | 2%nat,2%nat => s22 | 3%nat,3%nat => s33
  | 1%nat,2%nat | 2%nat,1%nat => s12 | 1%nat,3%nat | 3%nat,1%nat => s13 | 2%nat,3%nat | 3%nat,2%nat => s23
  | _,_ => 0 end.
Definition q (i j : nat) : R :=
  match i, j with
  | 1%nat,1%nat => q11 | 1%nat,2%nat => q12 | 1%nat,3%nat => q13
  | 2%nat,1%nat => q21 | 2%nat,2%nat => q22 | 2%nat,3%nat => q23
  | 3%nat,1%nat => q31 | 3%nat,2%nat => q32 | 3%nat,3%nat => q33 | _,_ => 0 end.
Definition sum3 (f : nat -> R) := f 1%nat + f 2%nat + f 3%nat.
Definition b (i j : nat) : R := sum3 (fun k => sum3 (fun l => q i k * a k l * q j l)).
Definition mises2 (x11 x22 x33 x12 x13 x23 : R) := x11^2 + x22^2 + x33^2 - x11*x22 - x11*x33 - x22*x33 + 3*(x12^2 + x13^2 + x23^2).
Lemma I1_inv : b 1 1 + b 2 2 + b 3 3 = s11 + s22 + s33.
Proof. unfold b, sum3, q, a. Time nsatz. Qed.
Lemma mises_inv : mises2 (b 1 1) (b 2 2) (b 3 3) (b 1 2) (b 1 3) (b 2 3) = mises2 s11 s22 s33 s12 s13 s23.
Proof. unfold mises2, b, sum3, q, a. Time nsatz. Qed.
End Rot.
