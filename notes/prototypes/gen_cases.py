import itertools, numpy as np, sys, random
sys.path.insert(0,'/repo/src')
import pylife.stress.rainflow as RF
def run(chunks):
    rec = RF.FullRecorder(); d = RF.FourPointDetector(recorder=rec)
    for c in chunks: d.process(np.array(c,dtype=float))
    cyc=list(zip(map(int,rec.values_from),map(int,rec.values_to),map(int,rec.index_from),map(int,rec.index_to)))
    return cyc, list(map(int,d.residuals)), list(map(int,d.residual_index))
def zl(l): return '['+';'.join(str(x) if x>=0 else '(%d)'%x for x in l)+']'
def nl(l): return '['+';'.join('%d%%nat'%x for x in l)+']'
def cl(l): return '['+';'.join('(%s,%s,%d%%nat,%d%%nat)'%(a if a>=0 else '(%d)'%a,b if b>=0 else '(%d)'%b,c,d) for a,b,c,d in l)+']'
random.seed(5)
cases=[]
for n in range(1,7):
    for s in itertools.product(range(3),repeat=n): cases.append([list(s)])
for _ in range(1500):
    n=random.randint(2,60); k=random.choice([2,3,4,9,50])
    s=[random.randint(-k,k) for _ in range(n)]
    # random plateaus
    if random.random()<0.4:
        t=[]
        for x in s: t+= [x]*random.choice([1,1,2,3])
        s=t
    cuts=sorted(set(random.sample(range(1,len(s)),min(len(s)-1,random.randint(0,6))))) if len(s)>1 else []
    b=[0]+cuts+[len(s)]
    cases.append([s[b[i]:b[i+1]] for i in range(len(b)-1)])
with open('Cases.v','w') as f:
    f.write('Require Import Model. From Coq Require Import ZArith List. Import ListNotations. Open Scope Z_scope.\n')
    f.write('Definition cases : list (list (list Z) * (list (Z*Z*nat*nat) * list Z * list nat)) := [\n')
    rows=[]
    for ch in cases:
        c,r,i=run(ch)
        rows.append('([%s], (%s, %s, %s))'%(';'.join(zl(x) for x in ch),cl(c),zl(r),nl(i)))
    f.write(';\n'.join(rows)); f.write('].\n')
    f.write('Eval vm_compute in (length cases, length (filter (fun c => negb (eqobs (run4 (fst c)) (snd c))) cases)).\n')
    f.write('Eval vm_compute in firstn 3 (filter (fun c => negb (eqobs (run4 (fst c)) (snd c))) cases).\n')
print(len(cases))
