From Coq Require Import Reals Lra.
From Coquelicot Require Import Coquelicot.
From Interval Require Import Tactic.
Open Scope R_scope.

Definition npow (x y : R) : R :=
  if Req_EM_T x 0 then (if Req_EM_T y 0 then 1 else 0) else Rpower x y.
Lemma npow_pos x y : 0 < x -> npow x y = Rpower x y.
Proof. intros H. unfold npow. destruct (Req_EM_T x 0); [lra|reflexivity]. Qed.
Lemma npow_0 y : 0 < y -> npow 0 y = 0.
Proof. intros H. unfold npow. destruct (Req_EM_T 0 0); [|lra]. destruct (Req_EM_T y 0); lra. Qed.

(* translator-style output for hookeslaw 3d *)
Definition G (E nu : R) := E / (2 * (1 + nu)).
Definition h3_strain E nu s11 s22 s33 s12 :=
  (1 / E * (s11 - nu * (s22 + s33)), 1 / E * (s22 - nu * (s11 + s33)), 1 / E * (s33 - nu * (s11 + s22)), s12 / G E nu).
Definition h3_stress E nu e11 e22 e33 g12 :=
  let factor1 := E / ((1 + nu) * (1 - 2 * nu)) in
  let factor2 := 1 - nu in
  (factor1 * (factor2 * e11 + nu * (e22 + e33)), factor1 * (factor2 * e22 + nu * (e11 + e33)),
   factor1 * (factor2 * e33 + nu * (e11 + e22)), G E nu * g12).
Lemma h3_roundtrip E nu s11 s22 s33 s12 : 0 < E -> -1 < nu < 1/2 ->
  (let '(e11,e22,e33,g12) := h3_strain E nu s11 s22 s33 s12 in h3_stress E nu e11 e22 e33 g12) = (s11,s22,s33,s12).
Proof. intros HE Hnu. unfold h3_strain, h3_stress, G. cbv zeta. repeat f_equal; field; lra. Qed.

(* RO strain and compliance: derivative *)
Definition ro_strain E K n s := s / E + sign s * npow (Rabs s / K) (1 / n).
Definition ro_compl E K n s := 1 / E + 1 / (n * K) * npow (Rabs s / K) (1 / n - 1).
Lemma ro_deriv E K n s : 0 < E -> 0 < K -> 0 < n < 1 -> 0 < s ->
  is_derive (fun s => s / E + Rpower (s / K) (1 / n)) s (1 / E + 1 / (n * K) * Rpower (s / K) (1 / n - 1)).
Proof.
  intros HE HK Hn Hs. unfold Rpower.
  auto_derive. { split; [|auto]. apply Rdiv_lt_0_compat; lra. }
  assert (0 < s/K) by (apply Rdiv_lt_0_compat; lra).
  replace (1 / n - 1) with (1/n + -1) by lra. rewrite Rmult_plus_distr_r, exp_plus.
  replace (-1 * ln (s/K)) with (- ln (s/K)) by lra. rewrite exp_Ropp, exp_ln by lra. field. repeat split; lra.
Qed.

(* certificate shape *)
Goal Rabs (1000000 * npow (350 / 300) (- 5) - 462559.2348) <= 1/10.
Proof. rewrite npow_pos by lra. unfold Rpower. interval with (i_prec 60). Qed.
