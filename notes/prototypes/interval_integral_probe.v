From Coq Require Import Reals.
From Coquelicot Require Import Coquelicot.
From Interval Require Import Tactic.
Open Scope R_scope.

(* Phi(z) = 1/2 + 1/sqrt(2 pi) * int_0^z exp(-t^2/2) dt *)
Goal Rabs (1/2 + / sqrt (2*PI) * RInt (fun t => exp (- t*t/2)) 0 (12815515655446004/10000000000000000) - 9/10) <= 1/10^12.
Proof.
  integral with (i_prec 80, i_fuel 2000, i_degree 15).
Qed.

Goal forall x, 1 <= x <= 2 -> Rabs (exp (ln x * 3) - x*x*x) <= 1/10^10.
Proof. intros. interval with (i_bisect x, i_prec 60). Qed.
