"""Pure-function transcription of the complete FKMNonlinearDetector + recorder (single point), generic in the law.
Stand-in for the future Gallina model HCM/Full.v."""
import itertools, numpy as np, pandas as pd, sys, random, warnings
sys.path.insert(0,'/repo/src'); warnings.simplefilter('ignore')
from pylife.stress.rainflow.fkm_nonlinear import FKMNonlinearDetector
from pylife.stress.rainflow.recorders import FKMNonlinearRecorder
from hcm_model import find_turns, new_turns

# integer-valued odd law (exact in floats)
def sig(L):  return 3*L + (1 if L>0 else -1 if L<0 else 0)*L*L
def eps(s):  return 2*s + (1 if s>0 else -1 if s<0 else 0)*(abs(s)//3)      # some odd, monotone map
def dsig(dL): return 5*dL + (1 if dL>0 else -1 if dL<0 else 0)*dL*dL
def deps(ds): return 3*ds
class Law:
    ramberg_osgood_relation=None
    def stress(self, load, **kw): return pd.Series([float(sig(int(x))) for x in np.atleast_1d(np.asarray(load,dtype=float))])
    def strain(self, stress, load): return pd.Series([float(eps(int(x))) for x in np.atleast_1d(np.asarray(stress,dtype=float))])
    def stress_secondary_branch(self, dl, **kw): return pd.Series([float(dsig(int(x))) for x in np.atleast_1d(np.asarray(dl,dtype=float))])
    def strain_secondary_branch(self, ds, dl): return pd.Series([float(deps(int(x))) for x in np.atleast_1d(np.asarray(ds,dtype=float))])

def primary(L): s=sig(L); return (L,s,eps(s))
def secondary(prev,L):
    dL=L-prev[0]; ds=dsig(dL); de=deps(ds); return (L,prev[1]+ds,prev[2]+de)

def hcm_pass(st, samples, flush):
    res,iz,ir,lmax,tail,head,run,emin,emax,strains,nfirst=st
    run+=1
    t,tail,head=new_turns(tail,head,samples,flush)
    recs=[]; res=list(res); strains=list(strains)
    prev_load=0
    for _,L in t:
        cur=None
        while True:
            if iz==ir:
                prev=res[-1]
                if abs(L)>lmax:
                    _flipped=secondary(prev,-prev[0])
                    cur=primary(L)
                    recs.append(dict(loads_min=-abs(prev[0]),loads_max=abs(prev[0]),S_min=-abs(prev[1]),S_max=abs(prev[1]),
                                     epsilon_min=-abs(prev[2]),epsilon_max=abs(prev[2]),epsilon_min_LF=emin,epsilon_max_LF=emax,
                                     is_closed_hysteresis=False,is_zero_mean_stress_and_strain=True,run_index=run))
                    ir+=1
                else:
                    cur=secondary(prev,L)
                strains.append(cur[2]); nfirst+= (run==1)
                break
            if iz<ir:
                cur=primary(L); strains.append(cur[2]); nfirst+=(run==1); break
            p0,p1=res[-2],res[-1]
            if abs(L-p1[0])<abs(p1[0]-p0[0]):
                cur=secondary(p1,L); strains.append(cur[2]); nfirst+=(run==1); break
            recs.append(dict(loads_min=min(p0[0],p1[0]),loads_max=max(p0[0],p1[0]),
                             S_min=(p0 if p0[1]<p1[1] else p1)[1], S_max=(p0 if p0[1]>p1[1] else p1)[1],
                             epsilon_min=(p0 if p0[2]<p1[2] else p1)[2], epsilon_max=(p0 if p0[2]>p1[2] else p1)[2],
                             epsilon_min_LF=emin,epsilon_max_LF=emax,is_closed_hysteresis=True,is_zero_mean_stress_and_strain=False,run_index=run))
            res.pop(); res.pop(); iz-=2
            if abs(p0[0])<lmax and abs(p1[0])<lmax: continue
            cur=primary(L); strains.append(cur[2]); nfirst+=(run==1); break
        if abs(L)>lmax: lmax=abs(L)
        iz+=1; res.append(cur)
        if prev_load<L: emax = emax if emax>cur[2] else cur[2]
        else:           emin = emin if emin<cur[2] else cur[2]
        prev_load=L
    return (res,iz,ir,lmax,tail,head,run,emin,emax,strains,nfirst),recs
def derived(r):
    z=r['is_zero_mean_stress_and_strain']
    r=dict(r)
    r['S_a']=0.5*(r['S_max']-r['S_min']); r['S_m']=0 if z else 0.5*(r['S_min']+r['S_max'])
    r['epsilon_a']=0.5*(r['epsilon_max']-r['epsilon_min']); r['epsilon_m']=0 if z else 0.5*(r['epsilon_min']+r['epsilon_max'])
    r['R']=-1 if z else (r['S_min']/r['S_max'] if r['S_max']!=0 else (float('nan') if r['S_min']==0 else float('inf')*np.sign(r['S_min'])))
    return r
def model(s):
    s0=[0]+list(s); ti=[i for i,_ in find_turns(s0+s0)]
    flush=(len(s0)-1) in ti
    st=([],0,1,0,[],0,0,0,0,[],0)
    st,r1=hcm_pass(st,s0,flush); st,r2=hcm_pass(st,list(s),True)
    return [derived(r) for r in r1+r2], st[9], st[10]
COLS=['loads_min','loads_max','S_min','S_max','R','epsilon_min','epsilon_max','S_a','S_m','epsilon_a','epsilon_m','epsilon_min_LF','epsilon_max_LF','is_closed_hysteresis','is_zero_mean_stress_and_strain','run_index']
def impl(s):
    rec=FKMNonlinearRecorder(); d=FKMNonlinearDetector(recorder=rec, notch_approximation_law=Law())
    d.process_hcm_first(np.array(s,dtype=float)); d.process_hcm_second(np.array(s,dtype=float))
    c=rec.collective
    rows=[{k:(c[k].iloc[i].item() if hasattr(c[k].iloc[i],'item') else c[k].iloc[i]) for k in COLS} for i in range(len(c))]
    return rows, list(map(float,d.strain_values)), len(d.strain_values_first_run)
def same(a,b):
    if len(a)!=len(b): return False
    for x,y in zip(a,b):
        for k in COLS:
            u,v=x[k],y[k]
            if isinstance(u,float) and isinstance(v,float) and np.isnan(u) and np.isnan(v): continue
            if float(u)!=float(v): return False
    return True
if __name__=='__main__':
    bad=0;tot=0
    def check(s):
        global bad,tot
        tot+=1
        a=impl(s); b=model(s)
        if not (same(a[0],b[0]) and a[1]==[float(x) for x in b[1]] and a[2]==b[2]):
            bad+=1
            if bad<6: print('DIFF',s,'\n impl ',a,'\n model',b)
    for n in range(2,5):
        for s in itertools.product(range(-2,3),repeat=n):
            if len(set(s))>=2: check(list(s))
    random.seed(11)
    for _ in range(300):
        n=random.randint(3,25); k=random.choice([3,6,12]); s=[random.randint(-k,k) for _ in range(n)]
        if len(set(s))>=2: check(s)
    print(tot,bad)
