From Coq Require Import Reals Lra.
Require Import Prelude_R Gen.
From Interval Require Import Tactic.
Open Scope R_scope.
Theorem ro_strain_odd E K n s : ro_strain E K n (- s) = - ro_strain E K n s.
Proof.
  unfold ro_strain, ro_elastic_strain, ro_plastic_strain. cbv zeta.
  rewrite Rabs_Ropp, sgnR_opp. field_simplify_eq; [ring|].
  (* E <> 0 needed by the real code too *)
Abort.
Theorem ro_strain_odd E K n s : E <> 0 -> ro_strain E K n (- s) = - ro_strain E K n s.
Proof.
  intros HE. unfold ro_strain, ro_elastic_strain, ro_plastic_strain. cbv zeta.
  rewrite Rabs_Ropp, sgnR_opp. field. exact HE.
Qed.
Theorem h3_roundtrip E nu s11 s22 s33 s12 s13 s23 : 0 < E -> -1 < nu < 1/2 ->
  let G := E / (2 * (1 + nu)) in
  (let '(e11,e22,e33,g12,g13,g23) := h3_strain E nu G s11 s22 s33 s12 s13 s23 in
   h3_stress E nu G e11 e22 e33 g12 g13 g23) = (s11,s22,s33,s12,s13,s23).
Proof. intros HE Hnu G. unfold h3_strain, h3_stress, G. cbv zeta. repeat f_equal; field; lra. Qed.
Theorem T_std_exponent : Rabs ((19507603651809477 / 50000000000000000) * (25631031310892007 / 10000000000000000) - 1) <= 1 / 10^15.
Proof. interval. Qed.
Print Assumptions h3_roundtrip.
