From Coq Require Import Reals Lra.
Open Scope R_scope.
Section Rot.
Variables q11 q12 q13 q21 q22 q23 q31 q32 q33 : R.
Variables s11 s22 s33 s12 s13 s23 : R.
Definition a (i j : nat) : R :=
  match i, j with
  | 1%nat,1%nat => s11 | 2%nat,2%nat => s22 | 3%nat,3%nat => s33
  | 1%nat,2%nat | 2%nat,1%nat => s12 | 1%nat,3%nat | 3%nat,1%nat => s13 | 2%nat,3%nat | 3%nat,2%nat => s23
  | _,_ => 0 end.
Definition q (i j : nat) : R :=
  match i, j with
  | 1%nat,1%nat => q11 | 1%nat,2%nat => q12 | 1%nat,3%nat => q13
  | 2%nat,1%nat => q21 | 2%nat,2%nat => q22 | 2%nat,3%nat => q23
  | 3%nat,1%nat => q31 | 3%nat,2%nat => q32 | 3%nat,3%nat => q33 | _,_ => 0 end.
Definition sum3 (f : nat -> R) := f 1%nat + f 2%nat + f 3%nat.
Definition g (k l : nat) : R := sum3 (fun i => q i k * q i l).       (* Q^T Q *)
Definition b (i j : nat) : R := sum3 (fun k => sum3 (fun l => q i k * a k l * q j l)).
Definition tr (m : nat -> nat -> R) := m 1%nat 1%nat + m 2%nat 2%nat + m 3%nat 3%nat.
Definition mul (m n : nat -> nat -> R) (i j : nat) := sum3 (fun k => m i k * n k j).
Lemma tr_b : tr b = tr (mul a g).
Proof. unfold tr, mul, b, g, sum3, q, a. Time ring. Qed.
Lemma tr_bb : tr (mul b b) = tr (mul (mul a g) (mul a g)).
Proof. unfold tr, mul, b, g, sum3, q, a. Time ring. Qed.
Hypothesis G : forall k l, (1 <= k <= 3)%nat -> (1 <= l <= 3)%nat -> g k l = if Nat.eqb k l then 1 else 0.
Lemma tr_bb_inv : tr (mul b b) = tr (mul a a).
Proof.
  rewrite tr_bb. unfold tr, mul, sum3. rewrite !G by (split; repeat constructor). cbn [Nat.eqb]. ring.
Qed.
Definition mises2 (x11 x22 x33 x12 x13 x23 : R) := x11^2 + x22^2 + x33^2 - x11*x22 - x11*x33 - x22*x33 + 3*(x12^2 + x13^2 + x23^2).
End Rot.
