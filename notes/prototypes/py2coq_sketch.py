"""Feasibility sketch of the fail-closed Python-ast -> Coq (R) translator.  Not framework code."""
import ast, sys, fractions
class Unsupported(Exception): pass
NP1={'log10':'log10R','log':'ln','exp':'exp','sqrt':'sqrt','abs':'Rabs','fabs':'Rabs','sign':'sgnR','cos':'cos','sin':'sin'}
IDENT={'asarray','array'}
def lit(v):
    if isinstance(v,bool): raise Unsupported('bool literal')
    if isinstance(v,int): return f'({v})' if v<0 else str(v)
    if isinstance(v,float):
        fr=fractions.Fraction(repr(v))          # exact decimal value as written, not the binary double
        n,d=fr.numerator,fr.denominator
        return f'({n} / {d})' if d!=1 else (f'({n})' if n<0 else str(n))
    raise Unsupported(f'literal {v!r}')
class Tr:
    def __init__(self, cls, params, methods, prefix, attr_objs=None):
        self.cls=cls; self.params=params; self.methods=methods; self.prefix=prefix; self.attr_objs=attr_objs or {}
    def e(self, n, env):
        if isinstance(n,ast.Constant): return lit(n.value)
        if isinstance(n,ast.Name):
            if n.id in env: return env[n.id]
            raise Unsupported(f'name {n.id}')
        if isinstance(n,ast.Attribute):
            if isinstance(n.value,ast.Name) and n.value.id=='self':
                a=n.attr.lstrip('_')
                if a in self.params: return a
                raise Unsupported(f'self.{n.attr}')
            if isinstance(n.value,ast.Name) and n.value.id=='np' and n.attr=='pi': return 'PI'
            raise Unsupported(ast.dump(n))
        if isinstance(n,ast.UnaryOp) and isinstance(n.op,ast.USub): return f'(- {self.e(n.operand,env)})'
        if isinstance(n,ast.BinOp):
            if isinstance(n.op,ast.Pow): return self.power(n.left,n.right,env)
            op={ast.Add:'+',ast.Sub:'-',ast.Mult:'*',ast.Div:'/'}.get(type(n.op))
            if op is None: raise Unsupported(ast.dump(n.op))
            return f'({self.e(n.left,env)} {op} {self.e(n.right,env)})'
        if isinstance(n,ast.Call): return self.call(n,env)
        raise Unsupported(ast.dump(n)[:80])
    def power(self,b,x,env):
        if isinstance(x,ast.Constant) and float(x.value)==int(x.value) and int(x.value)>=0:
            return f'({self.e(b,env)} ^ {int(x.value)})'
        return f'(npow {self.e(b,env)} {self.e(x,env)})'
    def call(self,n,env):
        f=n.func
        kw={k.arg:k.value for k in n.keywords}
        if isinstance(f,ast.Attribute) and isinstance(f.value,ast.Name) and f.value.id=='np':
            if f.attr in IDENT and len(n.args)==1: return self.e(n.args[0],env)
            if f.attr=='power' and len(n.args)==2 and not kw: return self.power(n.args[0],n.args[1],env)
            if f.attr in NP1 and len(n.args)==1 and not kw: return f'({NP1[f.attr]} {self.e(n.args[0],env)})'
            raise Unsupported(f'np.{f.attr}')
        if isinstance(f,ast.Attribute) and isinstance(f.value,ast.Name) and f.value.id=='self' and f.attr in self.methods:
            args=[self.e(a,env) for a in n.args]+[self.e(v,env) for v in kw.values()]
            return '('+' '.join([self.prefix+f.attr]+self.params+args)+')'
        raise Unsupported(ast.dump(f)[:80])
    def func(self, fn):
        args=[a.arg for a in fn.args.args if a.arg!='self']+[a.arg for a in fn.args.kwonlyargs if a.arg not in ('rtol','tol')]
        env={a:a for a in args}; lets=[]
        body=fn.body
        if body and isinstance(body[0],ast.Expr) and isinstance(body[0].value,ast.Constant): body=body[1:]
        for st in body:
            if isinstance(st,ast.Assign) and len(st.targets)==1:
                t=st.targets[0]
                if isinstance(t,ast.Name):
                    lets.append((t.id,self.e(st.value,env))); env[t.id]=t.id; continue
                if isinstance(t,ast.Tuple) and isinstance(st.value,ast.Call) and isinstance(st.value.func,ast.Attribute) and st.value.func.attr in ('_as_consistant_arrays','_get_abs_sign'):
                    if st.value.func.attr=='_as_consistant_arrays':
                        for tt,aa in zip(t.elts,st.value.args): lets.append((tt.id,self.e(aa,env))); env[tt.id]=tt.id
                    else:
                        x=self.e(st.value.args[0],env); a,s=t.elts
                        lets.append((a.id,f'(Rabs {x})')); lets.append((s.id,f'(sgnR {x})')); env[a.id]=a.id; env[s.id]=s.id
                    continue
                raise Unsupported('assign '+ast.unparse(st)[:60])
            if isinstance(st,ast.Return):
                v=st.value
                r='('+', '.join(self.e(x,env) for x in v.elts)+')' if isinstance(v,ast.Tuple) else self.e(v,env)
                out=f'Definition {self.prefix}{fn.name} '+' '.join(f'({p} : R)' for p in self.params+args)+' :=\n'
                for k,x in lets: out+=f'  let {k} := {x} in\n'
                return out+'  '+r+'.\n'
            raise Unsupported('stmt '+ast.unparse(st)[:60])
        raise Unsupported('no return')
def translate(path, cls, params, methods, prefix):
    tree=ast.parse(open(path).read())
    c=[n for n in tree.body if isinstance(n,ast.ClassDef) and n.name==cls][0] if cls else tree
    fns={n.name:n for n in c.body if isinstance(n,ast.FunctionDef)}
    tr=Tr(cls,params,methods,prefix)
    return ''.join(tr.func(fns[m]) for m in methods)
if __name__=='__main__':
    R='/repo/src/pylife/'
    out='From Coq Require Import Reals.\nOpen Scope R_scope.\nRequire Import Prelude_R.\n\n'
    out+=translate(R+'materiallaws/hookeslaw.py','HookesLaw3d',['E','nu','G'],['strain','stress'],'h3_')
    out+=translate(R+'materiallaws/rambgood.py','RambergOsgood',['E','K','n'],['elastic_strain','plastic_strain','strain','tangential_compliance','tangential_modulus','delta_strain'],'ro_')
    out+=translate(R+'materiallaws/true_stress_strain.py',None,[],['true_strain','true_stress','true_fracture_strain','true_fracture_stress'],'tss_')
    out+=translate(R+'utils/functions.py',None,[],['scattering_range_to_std','std_to_scattering_range'],'fn_')
    open('Gen.v','w').write(out); print(out)
