From Coq Require Import Reals Lra.
Open Scope R_scope.
Section Rot.
Variables q11 q12 q13 q21 q22 q23 q31 q32 q33 : R.
Variables s11 s22 s33 s12 s13 s23 : R.
Definition a (i j : nat) : R :=
  match i, j with
  | 1%nat,1%nat => s11 | 2%nat,2%nat => s22 | 3%nat,3%nat => s33
  | 1%nat,2%nat | 2%nat,1%nat => s12 | 1%nat,3%nat | 3%nat,1%nat => s13 | 2%nat,3%nat | 3%nat,2%nat => s23
  | _,_ => 0 end.
Definition q (i j : nat) : R :=
  match i, j with
  | 1%nat,1%nat => q11 | 1%nat,2%nat => q12 | 1%nat,3%nat => q13
  | 2%nat,1%nat => q21 | 2%nat,2%nat => q22 | 2%nat,3%nat => q23
  | 3%nat,1%nat => q31 | 3%nat,2%nat => q32 | 3%nat,3%nat => q33 | _,_ => 0 end.
Definition sum3 (f : nat -> R) := f 1%nat + f 2%nat + f 3%nat.
Definition g (k l : nat) : R := sum3 (fun i => q i k * q i l).
Definition b (i j : nat) : R := sum3 (fun k => sum3 (fun l => q i k * a k l * q j l)).
Definition det (m : nat -> nat -> R) :=
  m 1%nat 1%nat * (m 2%nat 2%nat * m 3%nat 3%nat - m 2%nat 3%nat * m 3%nat 2%nat)
  - m 1%nat 2%nat * (m 2%nat 1%nat * m 3%nat 3%nat - m 2%nat 3%nat * m 3%nat 1%nat)
  + m 1%nat 3%nat * (m 2%nat 1%nat * m 3%nat 2%nat - m 2%nat 2%nat * m 3%nat 1%nat).
Lemma det_b : det b = det a * det g.
Proof. unfold det, b, g, sum3, q, a. Time ring. Qed.
End Rot.
