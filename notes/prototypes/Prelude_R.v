From Coq Require Import Reals Lra.
Open Scope R_scope.
Definition npow (x y : R) : R :=
  if Req_EM_T x 0 then (if Req_EM_T y 0 then 1 else 0) else Rpower x y.
Definition sgnR (x : R) : R := if Rlt_dec 0 x then 1 else if Rlt_dec x 0 then -1 else 0.
Definition log10R (x : R) : R := ln x / ln 10.
Lemma npow_pos x y : 0 < x -> npow x y = Rpower x y.
Proof. intros H. unfold npow. destruct (Req_EM_T x 0); [lra|reflexivity]. Qed.
Lemma sgnR_opp x : sgnR (- x) = - sgnR x.
Proof. unfold sgnR. destruct (Rlt_dec 0 (-x)), (Rlt_dec (-x) 0), (Rlt_dec 0 x), (Rlt_dec x 0); lra. Qed.
