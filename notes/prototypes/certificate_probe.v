From Coq Require Import Reals Lra.
From Interval Require Import Tactic.
Open Scope R_scope.
Definition npow (x y : R) : R :=
  if Req_EM_T x 0 then (if Req_EM_T y 0 then 1 else 0) else Rpower x y.
Lemma npow_pos x y : 0 < x -> npow x y = Rpower x y.
Proof. intros H. unfold npow. destruct (Req_EM_T x 0); [lra|reflexivity]. Qed.
Goal Rabs (1000000 * npow (350 / 300) (- 5) - 462664.3660379604) <= 1/10^6.
Proof. rewrite npow_pos by lra. unfold Rpower. interval with (i_prec 80). Qed.
Goal Rabs (1000000 * npow (350 / 300) (- 5) - 462559.2348) <= 1/10.
Proof. rewrite npow_pos by lra. unfold Rpower. Fail interval with (i_prec 80). Abort.
