Require Import Model.
From Coq Require Import ZArith List Bool Lia.
Import ListNotations.
Open Scope Z_scope.

Fixpoint close3 (fuel : nat) (turns : list Z) (tidx : list nat) (stk : list nat) (hf lf : nat) (back : nat)
   (out : list (Z*Z*nat*nat)) : list nat * nat * nat * list (Z*Z*nat*nat) :=
  match fuel with
  | O => (stk, hf, lf, out)
  | S f =>
    match stk with
    | front :: start :: rest =>
        let sv := nthZ turns start in let fv := nthZ turns front in let bv := nthZ turns back in
        if fv >? nthZ turns hf then (stk, front, lf, out)
        else if fv <? nthZ turns lf then (stk, hf, front, out)
        else if (Nat.leb (Nat.max lf hf) start) && (Z.abs (fv - sv) <=? Z.abs (bv - fv))
             then close3 f turns tidx rest hf lf back (out ++ [(sv, fv, nthN tidx start, nthN tidx front)])
             else (stk, hf, lf, out)
    | _ => (stk, hf, lf, out)
    end
  end.

Fixpoint loop3 (turns : list Z) (tidx : list nat) (back : nat) (n : nat) (stk : list nat) (hf lf : nat)
   (out : list (Z*Z*nat*nat)) : list nat * list (Z*Z*nat*nat) :=
  match n with
  | O => (stk, out)
  | S k =>
      let '(stk', hf', lf', out') := close3 (S (length stk)) turns tidx stk hf lf back out in
      loop3 turns tidx (S back) k (back :: stk') hf' lf' out'
  end.

(* first index of max / min *)
Fixpoint argfirst (better : Z -> Z -> bool) (l : list Z) (i : nat) (bv : Z) (bi : nat) : nat :=
  match l with [] => bi | x :: r => if better x bv then argfirst better r (S i) x i else argfirst better r (S i) bv bi end.
Definition argmax (l : list Z) := match l with [] => 0%nat | x :: r => argfirst Z.gtb r 1%nat x 0%nat end.
Definition argmin (l : list Z) := match l with [] => 0%nat | x :: r => argfirst Z.ltb r 1%nat x 0%nat end.

Definition threepoint_loop (turns : list Z) (tidx : list nat) (hf lf : nat) : list (Z*Z*nat*nat) * list nat :=
  let '(stk, out) := loop3 turns tidx 2%nat (length turns - 2)%nat [1%nat; 0%nat] hf lf [] in (out, rev stk).

Definition process3 (st : dstate) (chunk : list Z) : dstate :=
  let residuals := match resid st with [] => firstn 1 chunk | _ => removelast (resid st) end in
  let '(t, tl', hd') := new_turns (Model.tail st) (Model.head st) chunk false in
  let turns := residuals ++ map snd t ++ lastn1 chunk in
  let tidx := ridx st ++ map fst t in
  let '(out, ri) := threepoint_loop turns tidx (argmax residuals) (argmin residuals) in
  {| Model.tail := tl'; Model.head := hd';
     resid := map (nthZ turns) ri;
     ridx := map (nthN tidx) (removelast ri);
     cyc := cyc st ++ out; chunks := chunks st ++ [length chunk] |}.
Definition run3 (chs : list (list Z)) := obs (fold_left process3 chs init).
Definition chunk_ok3 (s : list Z) : bool := forallb (fun p => eqobs (run3 p) (run3 [s])) (parts s).

(* multiset equality of directed cycle values via sorting-free counting *)
Definition cyc_vals (o : list (Z*Z*nat*nat) * list Z * list nat) := map (fun c => (fst (fst (fst c)), snd (fst (fst c)))) (fst (fst o)).
Definition count_pair (p : Z*Z) (l : list (Z*Z)) := length (filter (fun q => (fst p =? fst q) && (snd p =? snd q)) l).
Definition mseq (a b : list (Z*Z)) := Nat.eqb (length a) (length b) && forallb (fun p => Nat.eqb (count_pair p a) (count_pair p b)) a.
Definition same34 (s : list Z) : bool :=
  let o3 := run3 [s] in let o4 := run4 [s] in
  mseq (cyc_vals o3) (cyc_vals o4) && leqb Z.eqb (snd (fst o3)) (snd (fst o4)) && leqb Nat.eqb (snd o3) (snd o4).
