Require Import Model Model3. From Coq Require Import ZArith List. Import ListNotations. Open Scope Z_scope.
Eval vm_compute in run3 [[0;2;1;2;0;1;1;0;2]].
Time Eval vm_compute in forallb chunk_ok3 (flat_map (sigs [0;1;2;3]) [1;2;3;4;5;6;7]%nat).
Time Eval vm_compute in forallb same34 (flat_map (sigs [0;1;2;3]) [2;3;4;5;6;7;8]%nat).
