"""usage: flip.py PROP id commit [id commit ...]  -- mark known findings as fixed"""
import json, sys
prop=sys.argv[1]; pairs=dict(zip(sys.argv[2::2], sys.argv[3::2]))
lines=[json.loads(l) for l in open('/verif/known_findings.jsonl') if l.strip()]
for e in lines:
    if e['property']==prop and e['id'] in pairs:
        e['status']='fixed'; e['commit']=pairs[e['id']]
open('/verif/known_findings.jsonl','w').write('\n'.join(json.dumps(e) for e in lines)+'\n')
print([(e['id'],e['status']) for e in lines if e['property']==prop])
