#!/bin/bash
# usage: notes/build/merge_branch.sh Cxx   -- merge builder branch b-Cxx into main, resolving the recurring conflicts
set -e
cd /verif
b=$1; br=${2:-b-$1}
git merge --no-commit $br >/dev/null 2>&1 || true
python3 - <<'PY'
import re, json, os, subprocess
p='/verif/harness/common.py'
s=open(p).read()
s=re.sub(r"<<<<<<< HEAD\n(.*?)=======\n.*?>>>>>>> [bs]-C\d+\n", r"\1", s, flags=re.S)
s=s.replace("NCPU = int(os.environ.get('VERIF_NCPU', '3'))\n", "")
if "NCPU = int(os.environ.get('VERIF_NCPU', '0'))" not in s:
    raise SystemExit('common.py lost its NCPU line')
open(p,'w').write(s)
out=[];seen={}
for l in open('/verif/known_findings.jsonl'):
    l=l.strip()
    if not l or l[:7] in ('<<<<<<<','>>>>>>>','======='): continue
    e=json.loads(l); k=(e['property'],e['id'])
    if k in seen:
        if e.get('status')=='fixed': out[seen[k]]=e
        continue
    seen[k]=len(out); out.append(e)
open('/verif/known_findings.jsonl','w').write('\n'.join(json.dumps(e) for e in out)+'\n')
PY
git rm -q --cached coq/.nra.cache coq/.lia.cache coq/.nia.cache 2>/dev/null || true
git add -A
if grep -rln "^<<<<<<< " --include=*.py --include=*.v --include=*.json --include=*.jsonl harness coq known_findings.jsonl 2>/dev/null; then echo "UNRESOLVED CONFLICTS"; exit 1; fi
git commit -qm "Merge $br"
git log --oneline | head -1
